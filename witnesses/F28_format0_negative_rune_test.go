// Witness for finding F28 (property C09): Format0.Lookup checks only r > 255;
// a negative rune (an unmapped code point like any other) indexes the 256-byte
// array with a negative value and panics instead of returning glyph 0.
//
// Run: copy into /repo/cmap and `go test -run TestF28 .`.
package cmap

import "testing"

func TestF28Format0NegativeRune(t *testing.T) {
	defer func() {
		if r := recover(); r != nil {
			t.Fatalf("Lookup(-1) panicked: %v", r)
		}
	}()
	if gid := (&Format0{}).Lookup(-1); gid != 0 {
		t.Fatalf("Lookup(-1) = %d, want 0", gid)
	}
}
