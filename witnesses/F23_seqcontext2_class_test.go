// Witness for finding F23 (property C07): a class-based context subtable
// (GSUB type 5 / GPOS type 7, format 2) with fewer rule sets than the class
// definition has classes is accepted by readSeqContext2, but
// SeqContext2.apply indexes l.Rules with the class of the first glyph without
// a range check and panics "index out of range".  ChainedSeqContext2.apply
// has the check.
//
// Run: copy into /repo/opentype/gtab and `go test -run TestF23 .`.
package gtab

import (
	"bytes"
	"testing"

	"seehuhn.de/go/sfnt/glyph"
	"seehuhn.de/go/sfnt/opentype/classdef"
	"seehuhn.de/go/sfnt/opentype/coverage"
	"seehuhn.de/go/sfnt/parser"
)

func TestF23SeqContext2ClassWithoutRuleSet(t *testing.T) {
	orig := &SeqContext2{
		Cov:   coverage.Table{1: 0},
		Input: classdef.Table{1: 2}, // glyph 1 has class 2
		Rules: [][]*ClassSeqRule{nil}, // rule sets only for class 0
	}
	data := orig.encode()
	p := parser.New(bytes.NewReader(data))
	_, err := p.ReadUint16() // format, as readSubtable does
	if err != nil {
		t.Fatal(err)
	}
	st, err := readSeqContext2(p, 0)
	if err != nil {
		t.Skipf("reader rejects the table: %v", err)
	}
	ll := LookupList{{
		Meta:      &LookupMetaInfo{LookupType: 5},
		Subtables: []Subtable{st},
	}}
	defer func() {
		if r := recover(); r != nil {
			t.Fatalf("applying a lookup the reader accepted panicked: %v", r)
		}
	}()
	ctx := NewContext(ll, nil, []LookupIndex{0})
	ctx.Apply([]glyph.Info{{GID: 1, Text: []rune("a")}, {GID: 1, Text: []rune("b")}})
}
