// Witness for finding F19 (property C08): gtab.Info.Encode stores the offsets
// of the feature list and of the lookup list in 16 bits without checking that
// they fit.  One feature that references 33000 lookups makes the feature list
// 66012 bytes long; the lookup list offset is written modulo 65536 and the
// table no longer decodes to what was encoded.
//
// Run: copy into /repo/opentype/gtab and `go test -run TestF19 .`.
package gtab

import (
	"bytes"
	"testing"

	"golang.org/x/text/language"

	"seehuhn.de/go/sfnt/opentype/coverage"
)

func TestF19GtabOffsetTruncation(t *testing.T) {
	lookups := make([]LookupIndex, 33000)
	info := &Info{
		ScriptList:  ScriptListInfo{language.MustParse("und-Latn"): {Required: 0xFFFF, Optional: []FeatureIndex{0}}},
		FeatureList: FeatureListInfo{{Tag: "liga", Lookups: lookups}},
		LookupList: LookupList{{
			Meta:      &LookupMetaInfo{LookupType: 1},
			Subtables: []Subtable{&Gsub1_1{Cov: coverage.Set{1: true}, Delta: 1}},
		}},
	}
	defer func() {
		if r := recover(); r != nil {
			t.Logf("refused loudly: %v", r) // fine: the data cannot be represented
		}
	}()
	data := info.Encode()
	back, err := Read(bytes.NewReader(data), TypeGsub)
	if err != nil {
		t.Fatalf("Encode succeeded but the table does not decode: %v", err)
	}
	if len(back.LookupList) != 1 || len(back.FeatureList) != 1 || len(back.FeatureList[0].Lookups) != 33000 {
		t.Fatalf("wrote 1 lookup and 1 feature with 33000 lookup indices, read back %d lookups, %d features", len(back.LookupList), len(back.FeatureList))
	}
}
