// Witness for finding F19 (property C08): gtab.Info.Encode stores the offsets
// of the feature list and of the lookup list in 16 bits without checking that
// they fit.  One feature that references 33000 lookups makes the feature list
// 66012 bytes long; the lookup list offset 66022 is written as 486 and the
// table no longer decodes to what was encoded.
//
// Run: copy into /repo/opentype/gtab and `go test -run TestF19 .`.
package gtab

import (
	"bytes"
	"testing"

	"seehuhn.de/go/sfnt/opentype/coverage"
)

func TestF19GtabOffsetTruncation(t *testing.T) {
	lookups := make([]LookupIndex, 33000)
	info := &Info{
		FeatureList: FeatureListInfo{{Tag: "liga", Lookups: lookups}},
		LookupList: LookupList{{
			Meta:      &LookupMetaInfo{LookupType: 1},
			Subtables: []Subtable{&Gsub1_1{Cov: coverage.Set{1: true}, Delta: 1}},
		}},
	}
	defer func() {
		if r := recover(); r != nil {
			t.Logf("refused loudly: %v", r) // fine: the data cannot be represented
		}
	}()
	data := info.Encode()
	back, err := Read(bytes.NewReader(data), TypeGsub)
	if err != nil {
		t.Fatalf("Encode succeeded but the table does not decode: %v", err)
	}
	if len(back.LookupList) != 1 {
		t.Fatalf("wrote 1 lookup, read back %d", len(back.LookupList))
	}
}
