// Witness for finding F39 (property C09): for a segment of a format 4 cmap
// subtable whose idRangeOffset is not zero, the OpenType specification says:
// "If the value obtained from indexing into the glyphIdArray is not 0 (which
// indicates missingGlyph), idDelta[i] is added to it to get the glyph index"
// (modulo 65536).  decodeFormat4 ignored idDelta for such segments.
//
// Run: copy into /repo/cmap and `go test -run TestF39 .`.
package cmap

import "testing"

func TestF39Format4IdDeltaWithGlyphIdArray(t *testing.T) {
	w := func(ws ...uint16) []byte {
		var b []byte
		for _, x := range ws {
			b = append(b, byte(x>>8), byte(x))
		}
		return b
	}
	data := w(
		4, 36, 0, // format, length, language
		4, 4, 1, 0, // segCountX2, searchRange, entrySelector, rangeShift
		66, 0xFFFF, // endCode
		0,          // reservedPad
		65, 0xFFFF, // startCode
		5, 1, // idDelta
		4, 0, // idRangeOffset: segment 0 uses glyphIdArray[0..1]
		10, 11, // glyphIdArray
	)
	sub, err := decodeFormat4(data, nil)
	if err != nil {
		t.Fatal(err)
	}
	if gid := sub.Lookup('A'); gid != 15 {
		t.Fatalf("Lookup('A') = %d, want 10 + idDelta = 15", gid)
	}
	if gid := sub.Lookup('B'); gid != 16 {
		t.Fatalf("Lookup('B') = %d, want 11 + idDelta = 16", gid)
	}
}
