package glyf

import "testing"

func TestF1F2(t *testing.T) {
	// zero contours: header(10) + instructionLength(2)
	g, err := decodeGlyph([]byte{0, 0, 0, 0, 0, 0, 0, 0, 0, 0, 0, 0})
	if err != nil {
		t.Fatal(err)
	}
	s0 := g.Data.(SimpleGlyph)
	if _, err := s0.Decode(); err != nil {
		t.Fatal(err)
	}
	// two contours with end points [5,2]
	data := []byte{0, 2, 0, 0, 0, 0, 0, 0, 0, 0, 0, 5, 0, 2, 0, 0, 0x31, 0x31, 0x31}
	g, err = decodeGlyph(data)
	if err == nil {
		s := g.Data.(SimpleGlyph)
		_, _ = s.Decode() // must not panic
	}
}
