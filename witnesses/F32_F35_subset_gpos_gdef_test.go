// Witnesses for the OPEN findings F32, F34, F35 and the fixed F33 (property C10).
//
//   F32  SubsetGdef panics "not implemented" for every font that has a GDEF
//        table: Font.Subset cannot be used on such fonts.
//   F33  (fixed) SubsetGpos stored the kerning pairs of the subset under the
//        glyph numbers of the original font.
//   F34  SubsetGpos panics "not implemented" / "unsupported GPOS format" for
//        every subtable type other than GPOS 1.1, 1.2 and 2.1.
//   F35  SubsetGpos leaves a nil subtable for GPOS 1.1 / 1.2 (single
//        adjustment): the subset cannot be encoded.
//
// Run: copy into /repo and `go test -run TestF3 .`.
package sfnt

import (
	"testing"

	"seehuhn.de/go/sfnt/glyph"
	"seehuhn.de/go/sfnt/opentype/coverage"
	"seehuhn.de/go/sfnt/opentype/gdef"
	"seehuhn.de/go/sfnt/opentype/gtab"
)

func newTestSubsetter() *subsetter {
	return &subsetter{glyphs: []glyph.ID{0, 5, 6}, newGid: map[glyph.ID]glyph.ID{0: 0, 5: 1, 6: 2}}
}

func TestF32SubsetGdefPanics(t *testing.T) {
	defer func() {
		if r := recover(); r != nil {
			t.Fatalf("SubsetGdef panicked: %v", r)
		}
	}()
	newTestSubsetter().SubsetGdef(&gdef.Table{GlyphClass: map[glyph.ID]uint16{5: 1}})
}

func TestF33SubsetKernPairs(t *testing.T) {
	old := &gtab.Info{LookupList: gtab.LookupList{{
		Meta:      &gtab.LookupMetaInfo{LookupType: 2},
		Subtables: []gtab.Subtable{gtab.Gpos2_1{{Left: 5, Right: 6}: &gtab.PairAdjust{First: &gtab.GposValueRecord{XAdvance: -50}}}},
	}}}
	res := newTestSubsetter().SubsetGpos(old)
	m := res.LookupList[0].Subtables[0].(gtab.Gpos2_1)
	if _, ok := m[glyph.Pair{Left: 1, Right: 2}]; !ok {
		t.Fatalf("kerning pair (5,6) was not renumbered to (1,2): %v", m)
	}
}

func TestF34SubsetGposPanics(t *testing.T) {
	defer func() {
		if r := recover(); r != nil {
			t.Fatalf("SubsetGpos panicked: %v", r)
		}
	}()
	old := &gtab.Info{LookupList: gtab.LookupList{{
		Meta:      &gtab.LookupMetaInfo{LookupType: 3},
		Subtables: []gtab.Subtable{&gtab.Gpos3_1{Cov: coverage.Table{5: 0}, Records: make([]gtab.EntryExitRecord, 1)}},
	}}}
	newTestSubsetter().SubsetGpos(old)
}

func TestF35SubsetGposNilSubtable(t *testing.T) {
	old := &gtab.Info{LookupList: gtab.LookupList{{
		Meta:      &gtab.LookupMetaInfo{LookupType: 1},
		Subtables: []gtab.Subtable{&gtab.Gpos1_1{Cov: coverage.Table{5: 0}, Adjust: &gtab.GposValueRecord{XAdvance: 10}}},
	}}}
	res := newTestSubsetter().SubsetGpos(old)
	if res.LookupList[0].Subtables[0] == nil {
		t.Fatalf("single adjustment subtable became a nil subtable in the subset")
	}
}
