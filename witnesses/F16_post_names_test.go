package post

import (
	"bytes"
	"fmt"
	"strings"
	"testing"
)

func TestF16LongName(t *testing.T) {
	info := &Info{Names: []string{".notdef", strings.Repeat("x", 300), "B"}}
	got, err := Read(bytes.NewReader(info.Encode()))
	if err != nil {
		t.Fatalf("cannot read back: %v", err)
	}
	for i, n := range info.Names {
		if got.Names[i] != n {
			t.Errorf("name %d: got %q..., want %q...", i, trunc(got.Names[i]), trunc(n))
		}
	}
}

func TestF16ManyNames(t *testing.T) {
	names := make([]string, 65400)
	for i := range names {
		names[i] = fmt.Sprintf("g%05d", i)
	}
	info := &Info{Names: names}
	got, err := Read(bytes.NewReader(info.Encode()))
	if err != nil {
		t.Fatalf("cannot read back: %v", err)
	}
	for i, n := range names {
		if got.Names[i] != n {
			t.Fatalf("name %d: got %q, want %q", i, got.Names[i], n)
		}
	}
}

func trunc(s string) string {
	if len(s) > 12 {
		return s[:12]
	}
	return s
}
