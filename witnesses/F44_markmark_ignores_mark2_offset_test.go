// Witness for finding F44 (property C06): mark-to-mark attachment (GPOS lookup
// type 6) places mark1 so that its anchor coincides with the anchor of mark2.
// Glyph offsets are relative to the pen position of each glyph, so the position
// of mark2's anchor includes the offset mark2 itself received earlier (normally
// from the mark-to-base lookup that put it on its base).  Gpos6_1.apply computed
// mark1's offset from the two anchors and the advances only and ignored mark2's
// own offset: the second accent of a stack was placed relative to where the
// first accent would have been had it never been attached to the base.
//
// Run: copy into /repo/opentype/gtab and `go test -run TestF44 .`.
package gtab

import (
	"testing"

	"seehuhn.de/go/sfnt/glyph"
	"seehuhn.de/go/sfnt/opentype/anchor"
	"seehuhn.de/go/sfnt/opentype/coverage"
	"seehuhn.de/go/sfnt/opentype/markarray"
)

func TestF44MarkToMarkFollowsMark2(t *testing.T) {
	ll := LookupList{
		{ // mark-to-base: glyph 2 (mark) on glyph 1 (base)
			Meta: &LookupMetaInfo{LookupType: 4},
			Subtables: []Subtable{&Gpos4_1{
				MarkCov:   coverage.Table{2: 0},
				BaseCov:   coverage.Table{1: 0},
				MarkArray: []markarray.Record{{Class: 0, Table: anchor.Table{X: 10, Y: 20}}},
				BaseArray: [][]anchor.Table{{{X: 300, Y: 700}}},
			}},
		},
		{ // mark-to-mark: glyph 3 (mark1) on glyph 2 (mark2)
			Meta: &LookupMetaInfo{LookupType: 6},
			Subtables: []Subtable{&Gpos6_1{
				Mark1Cov:   coverage.Table{3: 0},
				Mark2Cov:   coverage.Table{2: 0},
				Mark1Array: []markarray.Record{{Class: 0, Table: anchor.Table{X: 5, Y: 7}}},
				Mark2Array: [][]anchor.Table{{{X: 40, Y: 150}}},
			}},
		},
	}
	ctx := NewContext(ll, nil, []LookupIndex{0, 1})
	out := ctx.Apply([]glyph.Info{{GID: 1, Advance: 600}, {GID: 2}, {GID: 3}})

	// pen positions: glyph 1 at 0, glyphs 2 and 3 at 600 (marks have no advance)
	mark2AnchorX := 600 + int(out[1].XOffset) + 40
	mark2AnchorY := int(out[1].YOffset) + 150
	mark1AnchorX := 600 + int(out[2].XOffset) + 5
	mark1AnchorY := int(out[2].YOffset) + 7
	if out[1].XOffset != 300-10-600 || out[1].YOffset != 700-20 {
		t.Fatalf("mark-to-base: unexpected offset (%d,%d)", out[1].XOffset, out[1].YOffset)
	}
	if mark1AnchorX != mark2AnchorX || mark1AnchorY != mark2AnchorY {
		t.Fatalf("mark1 anchor at (%d,%d), mark2 anchor at (%d,%d): the anchors do not coincide",
			mark1AnchorX, mark1AnchorY, mark2AnchorX, mark2AnchorY)
	}
}
