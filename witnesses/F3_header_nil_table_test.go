package header

import (
	"bytes"
	"testing"
)

func TestF3(t *testing.T) {
	tables := map[string][]byte{"head": make([]byte, 54), "cmap": {1, 2, 3, 4}, "glyf": nil}
	buf := &bytes.Buffer{}
	if _, err := Write(buf, ScalerTypeTrueType, tables); err != nil {
		t.Fatal(err)
	}
	info, err := Read(bytes.NewReader(buf.Bytes()))
	if err != nil {
		t.Fatalf("cannot read back: %v", err)
	}
	if len(info.Toc) != 2 {
		t.Fatalf("toc %v", info.Toc)
	}
}
