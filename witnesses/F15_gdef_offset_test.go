// Witness for finding F15 (property C08): gdef.Table.Encode stores the offsets
// of the mark attachment class table and of the mark glyph sets in 16 bits
// without checking that they fit.  With a glyph class table of 80006 bytes the
// mark attachment class offset 80018 is written as 14482; the file decodes
// without error to a different mark attachment class table.
//
// Run: copy into /repo/opentype/gdef and `go test -run TestF15 .`.
package gdef

import (
	"bytes"
	"reflect"
	"testing"

	"seehuhn.de/go/sfnt/glyph"
	"seehuhn.de/go/sfnt/opentype/classdef"
)

func TestF15GdefOffsetTruncation(t *testing.T) {
	table := &Table{
		GlyphClass:      classdef.Table{},
		MarkAttachClass: classdef.Table{1: 1},
	}
	for g := 0; g < 40000; g++ {
		table.GlyphClass[glyph.ID(g)] = uint16(1 + g%2)
	}
	defer func() {
		if r := recover(); r != nil {
			t.Logf("refused loudly: %v", r) // fine: the data cannot be represented
		}
	}()
	data := table.Encode()
	back, err := Read(bytes.NewReader(data))
	if err != nil {
		return // a loud refusal would be fine
	}
	if !reflect.DeepEqual(back.MarkAttachClass, table.MarkAttachClass) {
		t.Fatalf("MarkAttachClass: wrote %v, read back %v", table.MarkAttachClass, back.MarkAttachClass)
	}
}
