// Witness for finding F30 (property C07): fixStackMerge counts the glyphs a
// ligature removed only while it still has input positions of the enclosing
// rule to compare with.  When the removed glyphs lie behind the last input
// position of the enclosing rule but before its end (glyphs the enclosing
// lookup ignores, e.g. marks under IgnoreMarks), EndPos is not reduced: the
// next nested lookup of the same rule is called with an end position beyond
// the (shortened) glyph sequence and indexes out of range.
//
// Run: copy into /repo/opentype/gtab and `go test -run TestF30 .`.
package gtab

import (
	"testing"

	"seehuhn.de/go/sfnt/glyph"
	"seehuhn.de/go/sfnt/opentype/coverage"
	"seehuhn.de/go/sfnt/opentype/gdef"
)

func TestF30StackMergeLeavesEndPosBeyondSequence(t *testing.T) {
	gd := &gdef.Table{GlyphClass: map[glyph.ID]uint16{3: 3}} // glyph 3 is a mark
	ll := LookupList{
		{ // A B (marks ignored): first B+marks -> ligature, then a lookup at A
			Meta: &LookupMetaInfo{LookupType: 5, LookupFlags: 0x0008},
			Subtables: []Subtable{&SeqContext3{
				Input: []coverage.Set{{1: true}, {2: true}},
				Actions: []SeqLookup{
					{SequenceIndex: 1, LookupListIndex: 1},
					{SequenceIndex: 0, LookupListIndex: 2},
				},
			}},
		},
		{ // B M M -> L
			Meta:      &LookupMetaInfo{LookupType: 4},
			Subtables: []Subtable{&Gsub4_1{Cov: coverage.Table{2: 0}, Repl: [][]Ligature{{{In: []glyph.ID{3, 3}, Out: 5}}}}},
		},
		{ // A L C X -> Y (cannot match: the sequence ends after C)
			Meta:      &LookupMetaInfo{LookupType: 4},
			Subtables: []Subtable{&Gsub4_1{Cov: coverage.Table{1: 0}, Repl: [][]Ligature{{{In: []glyph.ID{5, 4, 7}, Out: 6}}}}},
		},
	}
	defer func() {
		if r := recover(); r != nil {
			t.Fatalf("Apply panicked: %v", r)
		}
	}()
	ctx := NewContext(ll, gd, []LookupIndex{0})
	out := ctx.Apply([]glyph.Info{
		{GID: 1, Text: []rune("A")}, {GID: 2, Text: []rune("B")},
		{GID: 3, Text: []rune("m")}, {GID: 3, Text: []rune("n")}, {GID: 4, Text: []rune("C")},
	})
	t.Log(out)
}
