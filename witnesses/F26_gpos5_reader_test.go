// Witness for finding F26 (properties C02/C18): readGpos5_1 (mark-to-ligature
// attachment) indexes the LigatureArray offset list with the mark class
// (offsets[j], j < markClassCount, len(offsets) == ligCount) and stores the
// component row under the ligature index (ligAttach[i], len == componentCount):
// a well-formed subtable with more mark classes than ligatures makes the
// reader panic "index out of range" instead of returning a value or an error.
//
// Run: copy into /repo/opentype/gtab and `go test -run TestF26 .`.
package gtab

import (
	"bytes"
	"testing"

	"seehuhn.de/go/sfnt/parser"
)

func TestF26Gpos5ReaderPanics(t *testing.T) {
	data := []byte{
		0, 1, // format
		0, 12, // markCoverageOffset
		0, 18, // ligatureCoverageOffset
		0, 2, // markClassCount
		0, 24, // markArrayOffset
		0, 36, // ligatureArrayOffset
		0, 1, 0, 1, 0, 2, // 12: mark coverage {2}
		0, 1, 0, 1, 0, 1, // 18: ligature coverage {1}
		0, 1, 0, 0, 0, 6, // 24: mark array: 1 record, class 0, anchor at +6
		0, 1, 0, 0, 0, 0, // 30: anchor
		0, 1, 0, 10, // 36: ligature array: 1 ligature, attach table at +10
		0, 0, 0, 0, 0, 0, // 40: unused
		0, 1, 0, 10, 0, 0, // 46: attach table: 1 component; anchor for class 0 at +10, none for class 1
		0, 0, 0, 0, // 52: unused
		0, 1, 0, 7, 0, 7, // 56: anchor
	}
	p := parser.New(bytes.NewReader(data))
	if _, err := p.ReadUint16(); err != nil {
		t.Fatal(err)
	}
	defer func() {
		if r := recover(); r != nil {
			t.Fatalf("reader panicked on a well-formed GPOS 5.1 subtable: %v", r)
		}
	}()
	_, err := readGpos5_1(p, 0)
	t.Logf("err = %v", err)
}
