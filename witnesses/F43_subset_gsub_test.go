// Witness for finding F43 (property C10, OPEN): SubsetGsub panics "not
// implemented" when it rebuilds the table for GSUB 1.2 (single substitution
// by list), 2.1, 3.1, 8.1 and all contextual subtables, so Font.Subset panics
// for fonts with such lookups - although the first half of the function
// already collected the rules of 1.2, 2.1 and 3.1 subtables.
//
// Run: copy into /repo and `go test -run TestF43 .`.
package sfnt

import (
	"testing"

	"seehuhn.de/go/sfnt/glyph"
	"seehuhn.de/go/sfnt/opentype/coverage"
	"seehuhn.de/go/sfnt/opentype/gtab"
)

func TestF43SubsetGsubPanics(t *testing.T) {
	defer func() {
		if r := recover(); r != nil {
			t.Fatalf("SubsetGsub panicked: %v", r)
		}
	}()
	s := &subsetter{glyphs: []glyph.ID{0, 5, 6}, newGid: map[glyph.ID]glyph.ID{0: 0, 5: 1, 6: 2}}
	old := &gtab.Info{LookupList: gtab.LookupList{{
		Meta:      &gtab.LookupMetaInfo{LookupType: 1},
		Subtables: []gtab.Subtable{&gtab.Gsub1_2{Cov: coverage.Table{5: 0}, SubstituteGlyphIDs: []glyph.ID{6}}},
	}}}
	s.SubsetGsub(old)
}
