// Witness for finding F18 (property C18): header.Read accepts a table
// directory entry whose offset+length wraps around 32 bits.  The sanity
// checks ("overlapping tables", "table extends beyond EOF") are computed from
// the wrapped end offset, so a 28-byte file that declares a table at offset
// 0xFFFFFFF0 with length 0x2C is accepted although none of the declared table
// data is in the file.
//
// Run: copy into /repo/header and `go test -run TestF18 ./header`.
package header

import (
	"bytes"
	"testing"
)

func TestF18HeaderWrap(t *testing.T) {
	file := []byte{
		0x00, 0x01, 0x00, 0x00, // scaler type
		0x00, 0x01, // numTables
		0, 0, 0, 0, 0, 0, // search fields (ignored by the reader)
		'g', 'l', 'y', 'f',
		0, 0, 0, 0, // checksum
		0xFF, 0xFF, 0xFF, 0xF0, // offset
		0x00, 0x00, 0x00, 0x2C, // length: offset+length = 0x1_0000_001C wraps to 28
	}
	info, err := Read(bytes.NewReader(file))
	if err == nil {
		rec := info.Toc["glyf"]
		t.Fatalf("header.Read accepted a %d-byte file with a table at offset %d, length %d", len(file), rec.Offset, rec.Length)
	}
}
