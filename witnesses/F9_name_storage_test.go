// Witness for finding F9 (property C14): nameBuilder.Add returns the offset and
// the length of a string in the string storage of the "name" table as uint16
// without checking that they fit.  With more than 64 KiB of string data (three
// names of 20000 characters, 40000 bytes each in UTF-16) the third offset
// wraps and the table decodes to different strings.
//
// Run: copy into /repo/name and `go test -run TestF9 .`.
package name

import (
	"strings"
	"testing"
)

func TestF9NameStorageOverflow(t *testing.T) {
	tab := &Table{
		Copyright:   strings.Repeat("a", 20000),
		Description: strings.Repeat("b", 20000),
		License:     strings.Repeat("c", 20000),
	}
	info := &Info{Windows: Tables{"en-US": tab}}
	defer func() {
		if r := recover(); r != nil {
			t.Logf("refused loudly: %v", r) // fine: the data cannot be represented
		}
	}()
	data := info.Encode(1)
	back, err := Decode(data)
	if err != nil {
		t.Fatalf("Encode succeeded but the table does not decode: %v", err)
	}
	got := back.Windows["en-US"]
	if got == nil || got.License != tab.License || got.Description != tab.Description || got.Copyright != tab.Copyright {
		t.Fatalf("the names differ after the round trip")
	}
}
