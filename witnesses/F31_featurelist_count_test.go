// Witness for finding F31 (property C08): FeatureListInfo.encode checks the
// 16-bit feature offsets but not the 16-bit lookup count of a feature; the
// last feature of the list may carry more than 65535 lookup indices, the
// count is then written modulo 65536 and the table decodes to a different
// feature list instead of being refused.
//
// Run: copy into /repo/opentype/gtab and `go test -run TestF31 .`.
package gtab

import (
	"bytes"
	"testing"

	"seehuhn.de/go/sfnt/parser"
)

func TestF31FeatureLookupCountWraps(t *testing.T) {
	info := FeatureListInfo{{Tag: "liga", Lookups: make([]LookupIndex, 65536)}}
	var data []byte
	func() {
		defer func() { recover() }() // refusing loudly is fine
		data = info.encode()
	}()
	if data == nil {
		return
	}
	back, err := readFeatureList(parser.New(bytes.NewReader(data)), 0)
	if err != nil {
		t.Fatalf("written feature list does not decode: %v", err)
	}
	if len(back) != 1 || len(back[0].Lookups) != 65536 {
		t.Fatalf("feature with 65536 lookups was written silently and decodes to %d lookups", len(back[0].Lookups))
	}
}
