// Witness for finding F27 (property C06): ChainedSeqContext3.apply stopped
// skipping ignored glyphs one position early (p+glyphsNeeded < b with
// glyphsNeeded counting the glyph still to be matched at p), so when exactly
// as many glyphs were left as the rule needs, a glyph the lookup flags say to
// ignore was matched as an input (or lookahead) glyph.  SeqContext3 - the same
// rule without context - correctly does not match.
//
// Run: copy into /repo/opentype/gtab and `go test -run TestF27 .`.
package gtab

import (
	"testing"

	"seehuhn.de/go/sfnt/glyph"
	"seehuhn.de/go/sfnt/opentype/coverage"
	"seehuhn.de/go/sfnt/opentype/gdef"
)

func TestF27Chained3MatchesIgnoredGlyph(t *testing.T) {
	gd := &gdef.Table{GlyphClass: map[glyph.ID]uint16{3: 3}} // glyph 3 is a mark
	for _, st := range []Subtable{
		&ChainedSeqContext3{
			Input:   []coverage.Set{{1: true}, {3: true}},
			Actions: []SeqLookup{{SequenceIndex: 0, LookupListIndex: 1}},
		},
		&SeqContext3{
			Input:   []coverage.Set{{1: true}, {3: true}},
			Actions: []SeqLookup{{SequenceIndex: 0, LookupListIndex: 1}},
		},
	} {
		ll := LookupList{
			{
				Meta:      &LookupMetaInfo{LookupType: 6, LookupFlags: 0x0008}, // ignore marks
				Subtables: []Subtable{st},
			},
			{
				Meta:      &LookupMetaInfo{LookupType: 1},
				Subtables: []Subtable{&Gsub1_1{Cov: coverage.Set{1: true}, Delta: 10}},
			},
		}
		ctx := NewContext(ll, gd, []LookupIndex{0})
		out := ctx.Apply([]glyph.Info{{GID: 1, Text: []rune("a")}, {GID: 3, Text: []rune("b")}})
		if out[0].GID != 1 {
			t.Errorf("%T matched the ignored mark glyph as second input glyph: %v", st, out)
		}
	}
}
