// Witness for finding F25 (property C07): readGpos4_1 (mark-to-base) and
// readGpos6_1 (mark-to-mark) do not check the class of a mark record against
// markClassCount; apply indexes the base record's anchor row with that class
// and panics "index out of range" while shaping.
//
// Run: copy into /repo/opentype/gtab and `go test -run TestF25 .`.
package gtab

import (
	"bytes"
	"testing"

	"seehuhn.de/go/sfnt/glyph"
	"seehuhn.de/go/sfnt/opentype/anchor"
	"seehuhn.de/go/sfnt/opentype/coverage"
	"seehuhn.de/go/sfnt/opentype/markarray"
	"seehuhn.de/go/sfnt/parser"
)

func TestF25Gpos4MarkClassOutOfRange(t *testing.T) {
	orig := &Gpos4_1{
		MarkCov:   coverage.Table{2: 0},
		BaseCov:   coverage.Table{1: 0},
		MarkArray: []markarray.Record{{Class: 5, Table: anchor.Table{X: 1, Y: 1}}}, // class 5 ...
		BaseArray: [][]anchor.Table{{{X: 10, Y: 10}}},                              // ... of 1 class
	}
	data := orig.encode()
	p := parser.New(bytes.NewReader(data))
	if _, err := p.ReadUint16(); err != nil { // format, as readGposSubtable does
		t.Fatal(err)
	}
	st, err := readGpos4_1(p, 0)
	if err != nil {
		t.Skipf("reader rejects the table: %v", err)
	}
	ll := LookupList{{
		Meta:      &LookupMetaInfo{LookupType: 4},
		Subtables: []Subtable{st},
	}}
	defer func() {
		if r := recover(); r != nil {
			t.Fatalf("applying a lookup the reader accepted panicked: %v", r)
		}
	}()
	ctx := NewContext(ll, nil, []LookupIndex{0})
	ctx.Apply([]glyph.Info{{GID: 1, Text: []rune("a")}, {GID: 2, Text: []rune("́")}})
}
