// Witness for finding F41 (property C05): the Type 2 charstring operator `mul`
// multiplies the two numbers on top of the stack.  decodeCharString keeps the
// stack as ordinary float64 values but computed the product as if they were
// 16.16 fixed point words (int64(a)*int64(b) >> 16): 3 4 mul gave 0.
//
// Run: copy into /repo/cff and `go test -run TestF41 .`.
package cff

import "testing"

func TestF41Type2Mul(t *testing.T) {
	info := &decodeInfo{}
	code := []byte{
		142, 143, // 3 4
		12, 24, // mul
		22, // hmoveto
		14, // endchar
	}
	g, err := info.decodeCharString(code)
	if err != nil {
		t.Fatal(err)
	}
	if len(g.Cmds) == 0 || g.Cmds[0].Op != OpMoveTo || g.Cmds[0].Args[0] != 12 {
		t.Fatalf("3 4 mul hmoveto moved to %v, want x = 12", g.Cmds)
	}
}
