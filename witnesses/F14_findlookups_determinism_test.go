// Witness for finding F14 (properties C15 / C07): FindLookups collected the
// language tags of the script list in map iteration order and handed them to
// the language matcher, whose fallback for an unmatched language is the FIRST
// tag: repeated calls with the same arguments returned different lookups.
//
// Run: copy into /repo/opentype/gtab and `go test -run TestF14 .`.
package gtab

import (
	"fmt"
	"testing"

	"golang.org/x/text/language"
)

func TestF14FindLookupsDeterministic(t *testing.T) {
	info := &Info{
		ScriptList: ScriptListInfo{
			language.MustParse("und-Latn"): {Required: 0xFFFF, Optional: []FeatureIndex{0}},
			language.MustParse("und-Cyrl"): {Required: 0xFFFF, Optional: []FeatureIndex{1}},
			language.MustParse("und-Grek"): {Required: 0xFFFF, Optional: []FeatureIndex{2}},
		},
		FeatureList: FeatureListInfo{
			{Tag: "liga", Lookups: []LookupIndex{0}},
			{Tag: "liga", Lookups: []LookupIndex{1}},
			{Tag: "liga", Lookups: []LookupIndex{2}},
		},
		LookupList: LookupList{{Meta: &LookupMetaInfo{}}, {Meta: &LookupMetaInfo{}}, {Meta: &LookupMetaInfo{}}},
	}
	seen := map[string]bool{}
	for i := 0; i < 200; i++ {
		seen[fmt.Sprint(info.FindLookups(language.Japanese, map[string]bool{"liga": true}))] = true
	}
	if len(seen) != 1 {
		t.Fatalf("FindLookups returned different results for the same arguments: %v", seen)
	}
}
