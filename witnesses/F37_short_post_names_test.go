// Witness for finding F37 (property C02): sfnt.Read accepted a TrueType font
// whose post table names fewer glyphs than the font has and kept the short
// name list; Font.GlyphName (and SubsetGlyf, MakeGlyphNames) index that list
// with glyph IDs and panicked for valid glyph IDs.
//
// Run: copy into /repo and `go test -run TestF37 .`.
package sfnt

import (
	"bytes"
	"testing"

	"golang.org/x/image/font/gofont/goregular"

	"seehuhn.de/go/sfnt/glyf"
	"seehuhn.de/go/sfnt/glyph"
)

func TestF37ShortPostNames(t *testing.T) {
	f, err := Read(bytes.NewReader(goregular.TTF))
	if err != nil {
		t.Fatal(err)
	}
	o := f.Outlines.(*glyf.Outlines)
	o.Names = o.Names[:5] // a post table that names only the first five glyphs
	buf := &bytes.Buffer{}
	if _, err := f.Write(buf); err != nil {
		t.Fatal(err)
	}
	g, err := Read(bytes.NewReader(buf.Bytes()))
	if err != nil {
		t.Skipf("reader rejects the font: %v", err)
	}
	o2 := g.Outlines.(*glyf.Outlines)
	defer func() {
		if r := recover(); r != nil {
			t.Fatalf("GlyphName panicked for a valid glyph ID on a font the reader accepted: %v", r)
		}
	}()
	g.GlyphName(glyph.ID(len(o2.Glyphs) - 1))
}
