// Witness for finding F6 (property C10): Font.Subset builds the cmap of
// the subset by reading the subtables from the (just created, empty) result
// table instead of from the font, so every subtable is skipped and the subset
// has no character map at all.
//
// Run: copy into /repo and `go test -run TestF6 .`.
package sfnt

import (
	"testing"

	"seehuhn.de/go/sfnt/cff"
	"seehuhn.de/go/sfnt/cmap"
	"seehuhn.de/go/sfnt/glyph"
)

func TestF6SubsetDropsCMap(t *testing.T) {
	o := &cff.Outlines{}
	for i := 0; i < 4; i++ {
		g := cff.NewGlyph("g", 500)
		g.MoveTo(0, 0)
		g.LineTo(100, 0)
		g.LineTo(100, 100)
		o.Glyphs = append(o.Glyphs, g)
	}
	o.Private = append(o.Private, nil)
	o.FDSelect = func(glyph.ID) int { return 0 }
	key := cmap.Key{PlatformID: 3, EncodingID: 1}
	f := &Font{
		FamilyName: "Test",
		UnitsPerEm: 1000,
		Outlines:   o,
		CMapTable:  cmap.Table{key: cmap.Format4{'A': 1, 'B': 2, 'C': 3}.Encode(0)},
	}
	sub := f.Subset([]glyph.ID{0, 2})
	c, err := sub.CMapTable.Get(key)
	if err != nil {
		t.Fatalf("the subset has no cmap subtable for %v: %v (font had %d, subset has %d subtables)", key, err, len(f.CMapTable), len(sub.CMapTable))
	}
	if c.Lookup('B') != 1 {
		t.Fatalf("'B' maps to glyph %d in the subset, want 1", c.Lookup('B'))
	}
}
