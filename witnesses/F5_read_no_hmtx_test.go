// Witness for finding F5 (property C02): sfnt.Read panics on a TrueType font
// file without "hhea"/"hmtx" tables.  Read accepts such a file (the outlines
// get Widths == nil, which WidthsPDF and GlyphWidth handle), but then calls
// IsFixedPitch -> Widths, which indexed the nil slice.
//
// Run: copy into /repo and `go test -run TestF5 .`.
package sfnt

import (
	"bytes"
	"testing"

	"golang.org/x/image/font/gofont/goregular"

	"seehuhn.de/go/sfnt/header"
)

func TestF5ReadWithoutHmtx(t *testing.T) {
	r := bytes.NewReader(goregular.TTF)
	dir, err := header.Read(r)
	if err != nil {
		t.Fatal(err)
	}
	tables := map[string][]byte{}
	for name := range dir.Toc {
		if name == "hhea" || name == "hmtx" {
			continue
		}
		data, err := dir.ReadTableBytes(r, name)
		if err != nil {
			t.Fatal(err)
		}
		tables[name] = data
	}
	buf := &bytes.Buffer{}
	if _, err := header.Write(buf, dir.ScalerType, tables); err != nil {
		t.Fatal(err)
	}
	defer func() {
		if r := recover(); r != nil {
			t.Fatalf("sfnt.Read panicked on a font file without hmtx: %v", r)
		}
	}()
	_, err = Read(bytes.NewReader(buf.Bytes()))
	t.Logf("Read returned err = %v (an error or a font are both fine, a panic is not)", err)
}
