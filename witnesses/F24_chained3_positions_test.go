// Witness for finding F24 (property C06): ChainedSeqContext3.apply recorded
// the position of the first input glyph twice (matchPos started as
// append(scratch[:0], a) and the input loop appended a again), so a nested
// lookup with SequenceIndex i >= 1 ran at input position i-1.
//
// Run: copy into /repo/opentype/gtab and `go test -run TestF24 .`.
package gtab

import (
	"testing"

	"seehuhn.de/go/sfnt/glyph"
	"seehuhn.de/go/sfnt/opentype/coverage"
)

func TestF24Chained3SecondPosition(t *testing.T) {
	ll := LookupList{
		{
			Meta: &LookupMetaInfo{LookupType: 6},
			Subtables: []Subtable{&ChainedSeqContext3{
				Input:   []coverage.Set{{1: true}, {2: true}},
				Actions: []SeqLookup{{SequenceIndex: 1, LookupListIndex: 1}},
			}},
		},
		{
			Meta:      &LookupMetaInfo{LookupType: 1},
			Subtables: []Subtable{&Gsub1_1{Cov: coverage.Set{1: true, 2: true}, Delta: 10}},
		},
	}
	ctx := NewContext(ll, nil, []LookupIndex{0})
	out := ctx.Apply([]glyph.Info{{GID: 1, Text: []rune("a")}, {GID: 2, Text: []rune("b")}})
	if len(out) != 2 || out[0].GID != 1 || out[1].GID != 12 {
		t.Fatalf("got %v, want GIDs 1 12 (the nested lookup belongs to the second input glyph)", out)
	}
}
