// Witness for finding F38 (property C06, OPEN): mark-to-base attachment (GPOS
// lookup type 4) attaches a mark to the base glyph that PRECEDES it, i.e. the
// nearest preceding glyph that is not a mark; if that glyph is not in the base
// coverage the subtable does not apply.  Gpos4_1.apply (and Gpos6_1.apply for
// mark-to-mark) instead walk backwards over ANY glyph that is not in the base
// coverage - including other base glyphs - and attach the mark to a glyph
// further back, moving it across the glyphs in between.
//
// Run: copy into /repo/opentype/gtab and `go test -run TestF38 .`.
package gtab

import (
	"testing"

	"seehuhn.de/go/sfnt/glyph"
	"seehuhn.de/go/sfnt/opentype/anchor"
	"seehuhn.de/go/sfnt/opentype/coverage"
	"seehuhn.de/go/sfnt/opentype/gdef"
	"seehuhn.de/go/sfnt/opentype/markarray"
)

func TestF38MarkAttachesAcrossAnotherBase(t *testing.T) {
	gd := &gdef.Table{GlyphClass: map[glyph.ID]uint16{1: 1, 2: 1, 3: 3}} // 1, 2 base glyphs, 3 a mark
	ll := LookupList{{
		Meta: &LookupMetaInfo{LookupType: 4},
		Subtables: []Subtable{&Gpos4_1{
			MarkCov:   coverage.Table{3: 0},
			BaseCov:   coverage.Table{1: 0}, // only glyph 1 has an anchor
			MarkArray: []markarray.Record{{Class: 0, Table: anchor.Table{X: 0, Y: 0}}},
			BaseArray: [][]anchor.Table{{{X: 100, Y: 100}}},
		}},
	}}
	ctx := NewContext(ll, gd, []LookupIndex{0})
	out := ctx.Apply([]glyph.Info{
		{GID: 1, Advance: 500, Text: []rune("A")},
		{GID: 2, Advance: 600, Text: []rune("B")}, // the base glyph of the mark; it has no anchor
		{GID: 3, Text: []rune("́")},
	})
	if out[2].XOffset != 0 || out[2].YOffset != 0 {
		t.Fatalf("the mark after base glyph 2 (not in the base coverage) was attached to glyph 1 two positions back: offset (%d,%d)", out[2].XOffset, out[2].YOffset)
	}
}
