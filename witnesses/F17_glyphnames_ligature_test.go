// Witness for finding F17 (property C20): MakeGlyphNames overwrites the
// existing, unique name of a glyph that is the output of a ligature rule (the
// other GSUB branches only name glyphs that have no name yet).  With a
// ligature f + i -> glyph 3 the name "fi.custom" of glyph 3 is replaced by
// "f_i"; with a rule whose output is glyph 0 even ".notdef" is lost.
//
// Run: copy into /repo and `go test -run TestF17 .`.
package sfnt

import (
	"testing"

	"seehuhn.de/go/sfnt/cff"
	"seehuhn.de/go/sfnt/glyph"
	"seehuhn.de/go/sfnt/opentype/coverage"
	"seehuhn.de/go/sfnt/opentype/gtab"
)

func TestF17LigatureOverwritesName(t *testing.T) {
	o := &cff.Outlines{}
	for _, name := range []string{".notdef", "f", "i", "fi.custom", ""} {
		g := cff.NewGlyph(name, 500)
		g.MoveTo(0, 0)
		g.LineTo(100, 0)
		g.LineTo(100, 100)
		o.Glyphs = append(o.Glyphs, g)
	}
	o.Private = append(o.Private, nil)
	o.FDSelect = func(glyph.ID) int { return 0 }
	f := &Font{
		FamilyName: "Test",
		UnitsPerEm: 1000,
		Outlines:   o,
		Gsub: &gtab.Info{
			LookupList: gtab.LookupList{{
				Meta: &gtab.LookupMetaInfo{LookupType: 4},
				Subtables: []gtab.Subtable{&gtab.Gsub4_1{
					Cov:  coverage.Table{1: 0},
					Repl: [][]gtab.Ligature{{{In: []glyph.ID{2}, Out: 3}}},
				}},
			}},
		},
	}
	names := f.MakeGlyphNames()
	if names[3] != "fi.custom" {
		t.Fatalf("glyph 3 was named %q, MakeGlyphNames returned %q", "fi.custom", names[3])
	}
}
