package gtab

import (
	"testing"

	"seehuhn.de/go/sfnt/glyph"
	"seehuhn.de/go/sfnt/opentype/coverage"
	"seehuhn.de/go/sfnt/parser"
	"bytes"
)

func TestF13(t *testing.T) {
	// a multiple-substitution subtable whose sequence for glyph 1 is empty,
	// encoded and read back through the library's own reader
	l := &Gsub2_1{Cov: coverage.Table{1: 0}, Repl: [][]glyph.ID{{}}}
	data := l.encode()
	p := parser.New(bytes.NewReader(data))
	format, _ := p.ReadUint16()
	if format != 1 {
		t.Fatal("unexpected format")
	}
	sub, err := readGsub2_1(p, 0)
	if err != nil {
		t.Skipf("reader rejects the table: %v", err)
	}
	ll := LookupList{{Meta: &LookupMetaInfo{LookupType: 2}, Subtables: []Subtable{sub}}}
	out := NewContext(ll, nil, []LookupIndex{0}).Apply([]glyph.Info{{GID: 1}, {GID: 2}})
	_ = out
}
