// Witness for finding F36 (property C15/C07): Layouter.Layout looks up the
// advance width of every glyph with Font.GlyphWidth, which indexes the glyph
// list without a range check.  Nothing validates the glyph IDs of a cmap
// subtable (or of GSUB substitutes) against the number of glyphs when a font
// is read, so laying out text with a font whose cmap names a glyph beyond the
// last one panics (index out of range).
//
// Run: copy into /repo and `go test -run TestF36 .`.
package sfnt

import (
	"testing"

	"golang.org/x/text/language"

	"seehuhn.de/go/sfnt/cmap"
	"seehuhn.de/go/sfnt/glyf"
	"seehuhn.de/go/postscript/funit"
)

func TestF36LayoutGlyphIDOutOfRange(t *testing.T) {
	f := &Font{
		UnitsPerEm: 1000,
		Outlines: &glyf.Outlines{
			Glyphs: glyf.Glyphs{nil, nil},
			Widths: []funit.Int16{500, 600},
		},
		CMapTable: cmap.Table{{PlatformID: 3, EncodingID: 1}: cmap.Format4{'A': 7}.Encode(0)},
	}
	l, err := f.NewLayouter(language.English, nil, nil)
	if err != nil {
		t.Fatal(err)
	}
	defer func() {
		if r := recover(); r != nil {
			t.Fatalf("Layout panicked: %v", r)
		}
	}()
	l.Layout("A")
}
