package gtab

import (
	"reflect"
	"testing"

	"seehuhn.de/go/sfnt/glyph"
	"seehuhn.de/go/sfnt/opentype/classdef"
	"seehuhn.de/go/sfnt/opentype/coverage"
	"seehuhn.de/go/sfnt/opentype/gdef"
)

// The same ligature must give the same result whether or not an earlier,
// non-matching ligature is listed before it in the ligature set.
func TestF11(t *testing.T) {
	const A, B, C, X, m, n, L = 1, 2, 3, 4, 10, 11, 20
	g := &gdef.Table{GlyphClass: classdef.Table{m: gdef.GlyphClassMark, n: gdef.GlyphClassMark}}
	run := func(ligs []Ligature) []glyph.Info {
		ll := LookupList{
			{ // 0: context A B C (marks ignored): ligature at 0, then +100 on whatever is at index 1 and 2
				Meta: &LookupMetaInfo{LookupType: 5, LookupFlags: IgnoreMarks},
				Subtables: []Subtable{&SeqContext1{Cov: coverage.Table{A: 0}, Rules: [][]*SeqRule{{{
					Input:   []glyph.ID{B, C},
					Actions: []SeqLookup{{SequenceIndex: 0, LookupListIndex: 1}, {SequenceIndex: 1, LookupListIndex: 2}, {SequenceIndex: 2, LookupListIndex: 2}},
				}}}}},
			},
			{ // 1: the ligature
				Meta:      &LookupMetaInfo{LookupType: 4, LookupFlags: IgnoreMarks},
				Subtables: []Subtable{&Gsub4_1{Cov: coverage.Table{A: 0}, Repl: [][]Ligature{ligs}}},
			},
			{ // 2: single substitution +100 for every glyph
				Meta:      &LookupMetaInfo{LookupType: 1},
				Subtables: []Subtable{&Gsub1_1{Cov: coverage.Set{A: true, B: true, C: true, X: true, m: true, n: true, L: true}, Delta: 100}},
			},
		}
		seq := []glyph.Info{{GID: A, Text: []rune("a")}, {GID: m, Text: []rune("1")}, {GID: B, Text: []rune("b")}, {GID: n, Text: []rune("2")}, {GID: C, Text: []rune("c")}, {GID: X, Text: []rune("x")}}
		return NewContext(ll, g, []LookupIndex{0}).Apply(seq)
	}
	want := run([]Ligature{{In: []glyph.ID{B, C}, Out: L}})
	got := run([]Ligature{{In: []glyph.ID{B, X}, Out: L + 1}, {In: []glyph.ID{B, C}, Out: L}})
	if !reflect.DeepEqual(got, want) {
		t.Errorf("got  %v\nwant %v", got, want)
	}
}
