// Witness for finding F8 (property C08): classdef.Table.Append computes the
// glyph count of a format 1 table in 16 bits.  For a table that covers glyphs
// 0..65535 and is cheaper in format 1 (many class changes), the count
// 65536 wraps to 0: AppendLen announces 131078 bytes, Append emits 6, and the
// emitted table decodes to an empty class definition.
//
// Run: copy into /repo/opentype/classdef and `go test -run TestF8 .`.
package classdef

import (
	"bytes"
	"testing"

	"seehuhn.de/go/sfnt/glyph"
	"seehuhn.de/go/sfnt/parser"
)

func TestF8ClassDefWrap(t *testing.T) {
	info := Table{}
	for g := 0; g < 65536; g++ {
		info[glyph.ID(g)] = uint16(1 + (g/2)%2) // 32768 ranges: format 1 is the smaller encoding
	}
	out := info.Append(nil)
	if len(out) != info.AppendLen() {
		t.Errorf("AppendLen() = %d but Append wrote %d bytes", info.AppendLen(), len(out))
	}
	back, err := Read(parser.New(bytes.NewReader(out)), 0)
	if err != nil {
		t.Fatalf("cannot read back: %v", err)
	}
	if len(back) != len(info) {
		t.Errorf("decoded table has %d entries, want %d", len(back), len(info))
	}
}
