// Witness for finding F21 (property C08, OPEN): Gsub1_2.encode stores the
// offset of the coverage table (6 + 2*glyphCount) in 16 bits without a range
// check.  With 40000 substitutes the offset 80006 is written as 14470 and the
// subtable decodes to different data (or not at all).
//
// Run: copy into /repo/opentype/gtab and `go test -run TestF21 .`.
package gtab

import (
	"bytes"
	"reflect"
	"testing"

	"seehuhn.de/go/sfnt/glyph"
	"seehuhn.de/go/sfnt/opentype/coverage"
	"seehuhn.de/go/sfnt/parser"
)

func TestF21Gsub12CoverageOffset(t *testing.T) {
	const n = 40000
	l := &Gsub1_2{Cov: coverage.Table{}}
	for i := 0; i < n; i++ {
		l.Cov[glyph.ID(i)] = i
		l.SubstituteGlyphIDs = append(l.SubstituteGlyphIDs, glyph.ID(i+1))
	}
	defer func() {
		if r := recover(); r != nil {
			t.Logf("refused loudly: %v", r) // would be fine
		}
	}()
	data := l.encode()
	if len(data) != l.encodeLen() {
		t.Errorf("encodeLen() = %d, encode() wrote %d bytes", l.encodeLen(), len(data))
	}
	p := parser.New(bytes.NewReader(data))
	if _, err := p.ReadUint16(); err != nil { // format
		t.Fatal(err)
	}
	back, err := readGsub1_2(p, 0)
	if err != nil {
		t.Fatalf("encode succeeded but the subtable does not decode: %v", err)
	}
	if !reflect.DeepEqual(back, l) {
		t.Fatalf("subtable differs after the round trip")
	}
}
