// Witness for finding F42 (property C06, OPEN): cursive attachment (GPOS lookup
// type 3) connects the exit anchor of a glyph with the entry anchor of the
// next one.  A NULL anchor offset means "this glyph has no such anchor": no
// attachment takes place.  readGpos3_1 represents a missing anchor as the zero
// anchor (the encoder writes zero anchors as NULL offsets again), but
// Gpos3_1.apply uses it as a real anchor at (0,0): a glyph WITHOUT entry anchor
// is moved to the exit anchor of its predecessor.
//
// Run: copy into /repo/opentype/gtab and `go test -run TestF42 .`.
package gtab

import (
	"testing"

	"seehuhn.de/go/sfnt/glyph"
	"seehuhn.de/go/sfnt/opentype/anchor"
	"seehuhn.de/go/sfnt/opentype/coverage"
)

func TestF42CursiveWithoutEntryAnchor(t *testing.T) {
	ll := LookupList{{
		Meta: &LookupMetaInfo{LookupType: 3},
		Subtables: []Subtable{&Gpos3_1{
			Cov: coverage.Table{1: 0, 2: 1},
			Records: []EntryExitRecord{
				{Exit: anchor.Table{X: 500, Y: 80}}, // glyph 1: exit anchor only
				{Exit: anchor.Table{X: 400, Y: 10}}, // glyph 2: NO entry anchor
			},
		}},
	}}
	ctx := NewContext(ll, nil, []LookupIndex{0})
	out := ctx.Apply([]glyph.Info{{GID: 1, Advance: 500}, {GID: 2, Advance: 400}})
	if out[1].YOffset != 0 {
		t.Fatalf("glyph 2 has no entry anchor but was shifted vertically by %d", out[1].YOffset)
	}
}
