// Witness for finding F40 (property C09): a format 6 cmap subtable maps the
// 16-bit codes firstCode .. firstCode+entryCount-1.  decodeFormat6 accepted
// firstCode+entryCount > 65536 and narrowed the codes to 16 bits, so the
// entries beyond U+FFFF were stored under the codes 0, 1, ...: characters the
// subtable does not mention (here U+0000 and U+0001) got glyphs.
//
// Run: copy into /repo/cmap and `go test -run TestF40 .`.
package cmap

import "testing"

func TestF40Format6CodesWrap(t *testing.T) {
	data := []byte{
		0, 6, 0, 16, 0, 0, // format, length, language
		0xFF, 0xFF, // firstCode
		0, 3, // entryCount
		0, 7, 0, 8, 0, 9, // glyphIdArray
	}
	sub, err := decodeFormat6(data, nil)
	if err != nil {
		return // rejecting the malformed subtable is fine
	}
	if gid := sub.Lookup(0); gid != 0 {
		t.Fatalf("U+0000 is not in the subtable but maps to glyph %d", gid)
	}
}
