package sfnt

import (
	"testing"

	"seehuhn.de/go/postscript/funit"
	"seehuhn.de/go/sfnt/glyf"
	"seehuhn.de/go/sfnt/glyph"
)

func TestF7(t *testing.T) {
	simple := func() *glyf.Glyph {
		return &glyf.Glyph{Data: glyf.SimpleGlyph{NumContours: 0, Encoded: []byte{0, 0}}}
	}
	comp := &glyf.Glyph{Data: glyf.CompositeGlyph{Components: []glyf.GlyphComponent{{Flags: 0, GlyphIndex: 1, Data: []byte{0, 0}}}}}
	old := &glyf.Outlines{
		Glyphs: glyf.Glyphs{simple(), simple(), comp},
		Widths: []funit.Int16{100, 200, 300},
	}
	s := &subsetter{glyphs: []glyph.ID{0, 2}, newGid: map[glyph.ID]glyph.ID{0: 0, 2: 1}}
	out := s.SubsetGlyf(old)
	if len(out.Glyphs) != 3 {
		t.Fatalf("expected 3 glyphs, got %d", len(out.Glyphs))
	}
	cc := out.Glyphs[1].Components()
	if len(cc) != 1 || s.glyphs[cc[0]] != 1 {
		t.Errorf("composite re-pointed to new glyph %v (old glyph %d), want old glyph 1", cc, s.glyphs[cc[0]])
	}
	for i, g := range s.glyphs {
		if s.newGid[g] != glyph.ID(i) {
			t.Errorf("newGid[%d] = %d, want %d", g, s.newGid[g], i)
		}
	}
}
