// Witness for finding F29 (property C09): Format4.Lookup truncates the rune to
// 16 bits, so a code point outside the BMP - which a format 4 subtable cannot
// map - returns the glyph of (r mod 65536) instead of glyph 0: U+10041 gets
// the glyph of 'A'.
//
// Run: copy into /repo/cmap and `go test -run TestF29 .`.
package cmap

import "testing"

func TestF29Format4SupplementaryPlane(t *testing.T) {
	m := Format4{'A': 7}
	if gid := m.Lookup(0x10041); gid != 0 {
		t.Fatalf("Lookup(U+10041) = %d, want 0 (unmapped)", gid)
	}
	if gid := m.Lookup(-65536 + 'A'); gid != 0 {
		t.Fatalf("Lookup(negative) = %d, want 0 (unmapped)", gid)
	}
}
