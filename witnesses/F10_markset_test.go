package gtab

import (
	"testing"

	"seehuhn.de/go/sfnt/glyph"
	"seehuhn.de/go/sfnt/opentype/classdef"
	"seehuhn.de/go/sfnt/opentype/coverage"
	"seehuhn.de/go/sfnt/opentype/gdef"
)

func TestF10(t *testing.T) {
	g := &gdef.Table{GlyphClass: classdef.Table{1: gdef.GlyphClassMark}, MarkGlyphSets: []coverage.Set{{}}}
	k := newKeepFunc(&LookupMetaInfo{LookupFlags: UseMarkFilteringSet, MarkFilteringSet: 3}, g)
	_ = k.Keep(glyph.ID(1))
	
}
