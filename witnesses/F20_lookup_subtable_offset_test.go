// Witness for finding F20 (property C08, OPEN): LookupList.encode stores the
// offsets of the subtables of a lookup, relative to the lookup table, in 16
// bits.  Extension records are only introduced for lookups that are moved in
// front of the largest lookup; the subtables of a single large lookup stay
// where they are.  A lookup with three 60 KB subtables is written with a
// wrapped third offset and the table does not decode.
//
// Run: copy into /repo/opentype/gtab and `go test -run TestF20 .`.
package gtab

import (
	"bytes"
	"reflect"
	"testing"

	"golang.org/x/text/language"

	"seehuhn.de/go/sfnt/glyph"
	"seehuhn.de/go/sfnt/opentype/coverage"
)

func TestF20SubtableOffsetOverflow(t *testing.T) {
	const n = 15000
	mk := func(start int) *Gsub1_2 {
		cov := coverage.Table{}
		var subst []glyph.ID
		for i := 0; i < n; i++ {
			cov[glyph.ID(start+2*i)] = i // every other glyph: 30 KB coverage table
			subst = append(subst, glyph.ID(start+2*i+1))
		}
		return &Gsub1_2{Cov: cov, SubstituteGlyphIDs: subst}
	}
	info := &Info{
		ScriptList:  ScriptListInfo{language.MustParse("und-Latn"): {Required: 0xFFFF, Optional: []FeatureIndex{0}}},
		FeatureList: FeatureListInfo{{Tag: "liga", Lookups: []LookupIndex{0}}},
		LookupList: LookupList{{
			Meta:      &LookupMetaInfo{LookupType: 1},
			Subtables: []Subtable{mk(0), mk(1), mk(30000)},
		}},
	}
	defer func() {
		if r := recover(); r != nil {
			t.Logf("refused loudly: %v", r) // would be fine
		}
	}()
	data := info.Encode()
	back, err := Read(bytes.NewReader(data), TypeGsub)
	if err != nil {
		t.Fatalf("Encode succeeded (%d bytes) but the table does not decode: %v", len(data), err)
	}
	if !reflect.DeepEqual(back.LookupList[0].Subtables, info.LookupList[0].Subtables) {
		t.Fatalf("subtables differ after the round trip")
	}
}
