package gtab

import (
	"reflect"
	"testing"

	"seehuhn.de/go/sfnt/glyph"
	"seehuhn.de/go/sfnt/opentype/coverage"
)

// A context rule with more than 64 nested actions: the action budget is hit.
func TestF12(t *testing.T) {
	var actions []SeqLookup
	for i := 0; i < 100; i++ {
		actions = append(actions, SeqLookup{SequenceIndex: 0, LookupListIndex: 1})
	}
	ll := LookupList{
		{Meta: &LookupMetaInfo{LookupType: 5}, Subtables: []Subtable{
			&SeqContext1{Cov: coverage.Table{1: 0, 7: 1}, Rules: [][]*SeqRule{{{Input: nil, Actions: actions}}, {{Input: nil, Actions: actions[:1]}}}},
		}},
		{Meta: &LookupMetaInfo{LookupType: 1}, Subtables: []Subtable{
			&Gsub1_1{Cov: cov60(), Delta: 1},
		}},
	}
	mk := func() []glyph.Info {
		return []glyph.Info{{GID: 1}, {GID: 5}, {GID: 5}}
	}
	mk2 := func() []glyph.Info { return []glyph.Info{{GID: 7}, {GID: 5}} }
	fresh := NewContext(ll, nil, []LookupIndex{0}).Apply(mk2())
	ctx := NewContext(ll, nil, []LookupIndex{0})
	_ = ctx.Apply(mk())
	if len(ctx.stack) != 0 {
		t.Errorf("stack not empty after Apply: %d", len(ctx.stack))
	}
	again := ctx.Apply(mk2())
	if !reflect.DeepEqual(fresh, again) {
		t.Errorf("history dependence: fresh %v, reused %v", fresh, again)
	}
}

func cov60() coverage.Set {
	s := coverage.Set{}
	for i := 1; i <= 200; i++ {
		s[glyph.ID(i)] = true
	}
	return s
}
