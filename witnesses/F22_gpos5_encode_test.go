// Witness for finding F22 (property C08, OPEN): mark-to-ligature subtables
// (GPOS lookup type 5) are read by the library (readGpos5_1) but cannot be
// written: Gpos5_1.encode and encodeLen panic "not implemented", so a font
// that contains such a lookup cannot be saved again.
//
// Run: copy into /repo/opentype/gtab and `go test -run TestF22 .`.
package gtab

import (
	"testing"

	"golang.org/x/text/language"
)

func TestF22Gpos5CannotBeEncoded(t *testing.T) {
	info := &Info{
		ScriptList:  ScriptListInfo{language.MustParse("und-Latn"): {Required: 0xFFFF, Optional: []FeatureIndex{0}}},
		FeatureList: FeatureListInfo{{Tag: "mark", Lookups: []LookupIndex{0}}},
		LookupList: LookupList{{
			Meta:      &LookupMetaInfo{LookupType: 5},
			Subtables: []Subtable{&Gpos5_1{}}, // what readGpos5_1 returns for a (valid) type 5 subtable
		}},
	}
	defer func() {
		if r := recover(); r != nil {
			t.Fatalf("Info.Encode panicked on a table the reader produces: %v", r)
		}
	}()
	info.Encode()
}
