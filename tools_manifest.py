#!/usr/bin/env python3
"""Regenerates /verif/MANIFEST.json from the table below (single source of truth)."""
import json, subprocess
props=[json.loads(l)['id'] for l in open('/verif/properties.jsonl')]
claimed = {
 "C17": dict(
   text="Deductive proof, function by function, of all exported methods of parser.Parser against an abstract random-access view of the input (ghost file/size/cursor of the underlying reader): every value returned is the big-endian interpretation of the bytes at the view position, the position advances by exactly the bytes consumed, and absent reader faults a read fails iff it would pass the end of the input, with io.ErrUnexpectedEOF and no data. All inputs, all buffer states, all short-read behaviours of the reader, all loop iterations (inductive invariants + decreases). The history statement follows by induction over operation sequences from the per-operation representation invariant inv(p).",
   note="Assumes the io.Reader/io.Seeker/Size contracts in /verif/assumed/io.spec (reader copies file bytes at its cursor, may return short reads, makes progress on non-empty buffers), 64-bit int, go/ssa faithful, SMT solver soundness, the parser owning its reader between calls. New requires the reader to be positioned at 0 (as at every call site).",
   ref="DESIGN.md section 5 (C17)"),
}
hooks=subprocess.run(["git","-C","/repo","log","--format=%H %s"],capture_output=True,text=True).stdout.strip().split("\n")
hook_commits=[l.split()[0] for l in hooks if l.split(" ",1)[1].startswith("verif:")]
na_reasons = {}
m={"version":1,
 "setup_cmd":"cd /verif/engine && GOFLAGS=-mod=vendor GOPROXY=off GOSUMDB=off GOTOOLCHAIN=local go build -o ../bin/gvc ./cmd/gvc",
 "hooks":{"guard":"verif","enable":"contract files /repo/<pkg>/zz_verif_contracts.go carry //go:build verif and contain comments only; gvc loads /repo with -tags verif","baseline_off_cmd":"cd /repo && GOFLAGS=-mod=mod GOPROXY=off GOSUMDB=off GOTOOLCHAIN=local go test -vet=off -count=1 ./...","source_commits":hook_commits,"add_only":True},
 "engines":[{"name":"gvc","path":"/verif/engine","serves_properties":sorted(claimed),"kind_free_text":"own verification-condition generator over go/ssa (naive form) of the real code in /repo; contracts as //@ comments in build-tag-guarded files; obligations discharged by z3 5.1.0 / z3 4.8.12 / cvc5 1.0"}],
 "checks":[],"not_applicable":[]}
for p in props:
  if p in claimed:
    c=claimed[p]
    m["checks"].append({"property_id":p,"quick_cmd":f"./bin/gvc check --prop {p} --tier quick","thorough_cmd":f"./bin/gvc check --prop {p} --tier thorough","evidence_file":f"/verif/evidence/{p}.json","replay_cmd_template":"./bin/gvc replay {path}","engine":"gvc",
      "level_claimed":{"category":"proof","text":c["text"],"design_ref":c["ref"]},"level_note":c["note"],
      "technique":"contract-based deductive verification: WP/VC generation over go/ssa of the real code, SMT (z3/cvc5) discharge per obligation"})
  else:
    m["not_applicable"].append({"property_id":p,"reason":na_reasons.get(p,"kernel not yet brought under contract (work in progress)")})
json.dump(m,open('/verif/MANIFEST.json','w'),indent=1)
print("claimed:",sorted(claimed))
