#!/usr/bin/env python3
"""Regenerates /verif/MANIFEST.json from the table below (single source of truth)."""
import json, subprocess
props=[json.loads(l)['id'] for l in open('/verif/properties.jsonl')]
claimed = {
 "C17": dict(
   text="Deductive proof, function by function, of all exported methods of parser.Parser against an abstract random-access view of the input (ghost file/size/cursor of the underlying reader): every value returned is the big-endian interpretation of the bytes at the view position, the position advances by exactly the bytes consumed, and absent reader faults a read fails iff it would pass the end of the input, with io.ErrUnexpectedEOF and no data. All inputs, all buffer states, all short-read behaviours of the reader, all loop iterations (inductive invariants + decreases). The history statement follows by induction over operation sequences from the per-operation representation invariant inv(p).",
   note="Assumes the io.Reader/io.Seeker/Size contracts in /verif/assumed/io.spec (reader copies file bytes at its cursor, may return short reads, makes progress on non-empty buffers), 64-bit int, go/ssa faithful, SMT solver soundness, the parser owning its reader between calls. New requires the reader to be positioned at 0 (as at every call site).",
   ref="DESIGN.md section 5 (C17)"),
}
hooks=subprocess.run(["git","-C","/repo","log","--format=%H %s"],capture_output=True,text=True).stdout.strip().split("\n")
hook_commits=[l.split()[0] for l in hooks if l.split(" ",1)[1].startswith("verif:")]
claimed["C03"]=dict(
   text="Deductive proof of the container writer and reader kernels: header.Write (table count = number of records written, head checksum field cleared before table checksums are computed, head table at least 12 bytes, no panic for any table map containing a head table, exact byte accounting), clearChecksum/patchChecksum (big-endian store of 0xB1B0AFBA - sum at head[8:12]), header.Read (no panic on any input, at least one table on success, reader faults returned). The checksum arithmetic itself (sum of big-endian words) and the directory layout bytes produced through encoding/binary are NOT decided; the independent-parser clause is a differential property outside this family.",
   note="Assumes io.Writer/io.ReaderAt contracts in /verif/assumed/io.spec, sort.Slice permutes its slice and has no other effect, encoding/binary.Write into a local bytes.Buffer has no other effect. Requires a head table of >= 12 bytes (every call site passes one).",
   ref="DESIGN.md section 5 (C03)")
claimed["C18"]=dict(
   text="Fault model as interface contract instead of fault injection: the assumed io.Writer may accept any n in [0,len(p)] and fail at any call, the assumed io.Reader/ReaderAt may fault at any call. Proven for all such behaviours: header.Write returns exactly the number of bytes the destination accepted on every return path and returns a non-nil error iff the destination reported one; every parser.Parser read returns io.ErrUnexpectedEOF iff it would pass the end of input and passes reader faults through; header.Read returns an error whenever its reader faults.",
   note="Same assumed contracts as C17/C03. Not decided: that every truncation of a whole font is rejected by sfnt.Read (composition of all decoders), Font.Write/cff.Font.Write wiring above header.Write.",
   ref="DESIGN.md section 5 (C18)")
claimed["C11"]=dict(
   text="Deductive proof of the glyf/loca framing: encodeLoca/decodeLoca are inverse (2*be16 / be32 of the table equals the offset for every entry, format 0 only when all offsets fit), decodeLoca returns non-decreasing in-range offsets, (*Glyph).encodeLen equals the number of bytes (*Glyph).append emits (recursive spec over the component list, padding included), Glyphs.Encode produces loca entries equal to the running sum of emitted glyph sizes, even and in the announced format; glyf.Decode, decodeGlyph, decodeGlyphComposite, removePadding and SimpleGlyph.Decode never panic and terminate on arbitrary bytes.",
   note="Point-coordinate semantics of SimpleGlyph.Decode (flag table) and agreement with an independent decoder are not decided; Components/FixComponents not yet under contract.",
   ref="DESIGN.md section 5 (C11)")
claimed["C02"]=dict(
   text="Per-decoder totality proofs (no panic: index/slice/nil/div/make/type-assert obligations; termination: decreases on every loop) for arbitrary input bytes, for the decoders under contract so far: parser (all methods), header.Read, glyf.decodeLoca, glyf.Decode, decodeGlyph, decodeGlyphComposite, removePadding, SimpleGlyph.Decode (lazy decoder on whatever decodeGlyph accepts).",
   note="Only the listed decoders; sfnt.Read, cff, cmap, gtab, name, post, kern readers are not yet under contract. Allocation is bounded per make() (<= 2^40 elements, assumption A-MEM) but proportionality to input size and running time are not expressible.",
   ref="DESIGN.md section 5 (C02)")
claimed["C05"]=dict(
   text="Three interpreter kernels proved against the Type 2 specification: getSubr implements the size-dependent subroutine bias (107 / 1131 / 32768 at the thresholds 1240 / 33900 of TN 5177) and rejects exactly the out-of-range indices; roll is the cyclic shift of the top stack elements for every shift count including negative and oversized ones. The operator switch of decodeCharString (path, flex, hint, arithmetic, storage operators) is NOT decided: a contract for it would be a second interpreter, which is model-based testing, a different family.",
   note="Only getSubr and roll; floats are uninterpreted (roll moves them, never computes with them). Mutations inside decodeCharString are invisible to this check.",
   ref="DESIGN.md section 5 (C05)")
claimed["C06"]=dict(
   text="Leaf rules of lookup application proved against the OpenType text: keepFunc.Keep returns false exactly for base/ligature/mark glyphs excluded by the lookup flags, with IgnoreMarks superseding the mark filtering set superseding the mark attachment type; applyAt returns the first non-negative subtable result; Gpos2_2.apply continues at the second glyph iff the pair has no second value record. Everything else in the property (ligature component consumption, contextual matching, nested actions, mark attachment, lookup order) is NOT decided: a contract for it is a reference shaper.",
   note="Assumed Subtable.apply interface contract; GposValueRecord.Apply has an open known finding (not-implemented panic).",
   ref="DESIGN.md section 5 (C06)")
claimed["C07"]=dict(
   text="Safety/termination/history kernels of shaping: Context.Apply terminates for EVERY behaviour of the subtables (the progress guard is proved, decreases len(seq)-pos), never indexes out of range, and returns with an empty action stack; applyAtRecursively terminates (lexicographic measure (64-numActions, len(stack))), keeps every stack position inside the glyph sequence and returns with an empty stack, so a reused Context starts from the same state as a fresh one; keepFunc.Keep, applyAt, Gpos2_2.apply, FindLookups never panic. Text conservation and the leaf GSUB apply methods are not yet decided.",
   note="Assumed contract for the Subtable.apply interface method (stack invariant preserved, result in [-1,len]); implementations other than Gpos2_2 are not yet checked against it. Known finding: GposValueRecord.Apply panics for YAdvance/device tables.",
   ref="DESIGN.md section 5 (C07)")
claimed["C08"]=dict(
   text="Coverage tables: encInfo/EncodeLen/Encode are proved to emit exactly the number of bytes they declare (declared size == emitted size), to choose the smaller format, to list glyphs in increasing order (format 1) and to count maximal ranges (format 2, recursive spec), refusing invalid tables by panic; coverage.Read/ReadSet are total (no panic, terminate even for ranges ending at 0xFFFF), return a valid table (indices 0..n-1 increasing with glyph id) and pass reader faults through; glyph encodeLen/append size agreement (shared with C11). classdef, GDEF, lookup-list layout, extension subtables are not yet under contract.",
   note="Coverage tables with 65536 glyphs excluded by precondition; round trip Read(Encode(t)) == t is not yet stated as one lemma.",
   ref="DESIGN.md section 5 (C08)")
claimed["C09"]=dict(
   text="Format 12: decodeFormat12 accepts exactly the well-formed subtables of the specification (ascending non-overlapping groups, glyph range, at most 65536 mapped codes: both directions of the iff are proved, so a valid table is never rejected and an invalid one never accepted) and maps every code of every group to startGlyphID + offset; cmap.Decode never panics on arbitrary bytes. Format 4/6/0, Encode, GetBest are not yet under contract.",
   note="Glyph ids above 0xFFFF are truncated to 16 bits by the library's glyph.ID type; the postcondition states that truncation.",
   ref="DESIGN.md section 5 (C09)")
claimed["C15"]=dict(
   text="kern.Read: every format-0 pair updates the kerning value by the rule the coverage bits select (minimum 0x02, override 0x08, accumulate) - proved as a fold over the pairs of each subtable (recursive spec), no panic, terminates, reader faults returned; FindLookups returns only indices below len(LookupList) and never panics. Cmap selection, GSUB/GPOS composition and the ordering/duplicate-freedom of FindLookups (sort semantics) are not yet decided.",
   note="Assumes x/text/language Matcher.Match returns an index into its tag list; sort.Slice only permutes.",
   ref="DESIGN.md section 5 (C15)")
claimed["C10"]=dict(
   text="Subsetter kernels: the bijection between the glyph list and the old->new index map is an invariant of getNewGid and SubsetGlyf (this is where the component re-pointing defect F7 was found and fixed); SubsetGlyf keeps the requested prefix of the glyph list and transfers widths and names of glyph i from original glyph glyphs[i]; FixComponents returns a fresh glyph with every component index mapped through the table and flags/arguments unchanged; SubsetCMap maps a character iff it mapped to a retained glyph, to that glyph's new index (formats 4 and 12, every map iteration order); SubsetCFF transfers glyphs, CIDs, re-keys the built-in encoding, and keeps private-dict indices in range. pop never panics on a non-empty map.",
   note="Free (unchecked) invariant len(s.glyphs) < 65536 in SubsetGlyf (pigeonhole argument, not expressible). Not decided: closure of the glyph list under components as a postcondition, equality of font matrices under the new index, GSUB/GPOS rule closure, Font.Subset's cmap loop (reads subtables from the empty result table - seen by inspection, not decided by any contract), 'can be written and read back'.",
   ref="DESIGN.md section 5 (C10)")
claimed["C16"]=dict(
   text="Sequential frame (write-set) obligations, the premise of the standard race-freedom argument: every heap store of the listed operations goes to memory allocated by the call or named in its modifies clause. Proved: MakeGlyphNames, NumGlyphs, FixComponents, Components, Glyphs.Encode, encodeLen, encodeLoca, decodeLoca, cmap.Decode, decodeFormat12, coverage encInfo/Encode, Keep, FindLookups, SubsetCMap, SubsetCFF write nothing that existed before the call and return fresh results; (*Glyph).append writes only its buffer argument; header.Write writes only head[8:12] and the writer; Context.Apply writes only its receiver and the glyph sequence. Two operations with disjoint write sets that only read shared state do not conflict under the Go memory model; the interleavings themselves are not explored.",
   note="Frame-only contract for MakeGlyphNames (panics/termination not claimed there). Callees without contracts are havoc (any write) and make the caller's frame obligation fail, so every callee on these paths has a checked or assumed frame; assumed frames: cmap GetBest/Get/Lookup/CodeRange, Outlines.NumGlyphs, stdlib. Font.Write, Subset as a whole, Layouter, Explain* are not under contract.",
   ref="DESIGN.md section 5 (C16)")
claimed["C20"]=dict(
   text="Uniqueness kernels: makeVariant returns a name that was not in use and marks exactly that name as used; cff.(*Outlines).makeNames (CID-keyed to simple conversion) leaves every glyph with a non-empty name, names pairwise distinct, glyph 0 named .notdef, for every input font with distinct non-nil glyphs; MakeGlyphNames returns a freshly allocated list (frame). Termination of the unbounded name searches is not claimed.",
   note="Assumes names.IsValid(\".notdef\") and fmt.Sprintf results at least as long as the literal part of the format. MakeGlyphNames' uniqueness/completeness invariant and 'existing names kept' (F17) are not decided; PostScriptName not under contract.",
   ref="DESIGN.md section 5 (C20)")
claimed["C12"]=dict(
   text="Metrics/header codecs proved field by field against the OpenType table layouts: maxp.Read/Encode (version, numGlyphs, 13 maxima at their byte offsets; Encode panics exactly for numGlyphs outside 1..65535), head.Read/Encode (version, magic, revision, flags bits 0/1/2/4, unitsPerEm, bounding box, macStyle bits 0/1/4/5/6, lowestRecPPEM, indexToLocFormat at offsets 0..52; 54 bytes), hmtx.Decode (ascent/descent/lineGap/caretOffset; advance widths and side bearings of every glyph incl. the repeated last width) and hmtx.Encode (36+4*numLong+2*(n-numLong) bytes, numLong is the least count with a constant tail, advanceWidthMax / minRightSideBearing / xMaxExtent equal their definitions as folds over the glyphs with ink). Read/Decode are total and return reader faults. Encode/decode pairs are inverse field by field because both sides are stated over the same byte offsets.",
   note="Assumed: encoding/binary.Read fills a struct with the big-endian values of consecutive bytes; binary.Write appends binary.Size bytes (content of hhea bytes not modelled, so hhea field placement on the encode side is not decided); time conversion, caret angle (floats: toAngle/fromAngle) not decided. OS/2, post header, FontBBox/IsFixedPitch/average width derivations not under contract.",
   ref="DESIGN.md section 5 (C12)")
claimed["C13"]=dict(
   text="CFF INDEX: cffIndex.encode chooses offSize in 1..4 such that every offset written fits (lossless: bodyLength+1 < 2^(8*offSize) is an obligation at the point where offsets are stored), offsets are 1 + the running sum of blob sizes, and the emitted size is 3+(count+1)*offSize+body; refuses (panics) for >= 65536 items or too much data; readIndex is total on arbitrary bytes (offsets validated monotone and inside the file before slicing, allocation bounded by the file size), returns reader faults. FDSelect is modelled as a pure function with range [0,nPrivate) (declared field contract). Charset, encoding, DICT numbers, strings, the offset fixed point of Font.Write are not under contract.",
   note="Precondition: partial sums of blob sizes are monotone (true for non-negative sizes, not proved by induction). bytes.Buffer is modelled by its length only.",
   ref="DESIGN.md section 5 (C13)")
claimed["C14"]=dict(
   text="post table glyph names: isMacRoman is true exactly for the standard 258-name Macintosh order (so format 1 is chosen only then); post.Encode is checked as an encoder: every narrowing conversion is a lossless obligation - the 16-bit glyph count and standard indices are proved, the Pascal string length and the custom name index are NOT lossless in general and are recorded as open known findings with witnesses.",
   note="mac/UTF-16 codecs, name table storage and language tags are not under contract (string contents are uninterpreted in this engine).",
   ref="DESIGN.md section 5 (C14)")
claimed["C04"]=dict(
   text="Two charstring-compiler kernels: encodeInt emits the Type 2 integer encoding of TN 5177 (1 byte for -107..107, 2 bytes for +-108..+-1131, else 28 + 16-bit two's complement) and the emitted bytes decode to the same value for every 16-bit input (spec function of the decoder side written from the specification); in encodeCharString every hstem/vstem(hm) operator is emitted with at most 48 operands on the stack including the optional width operand, and the stem chunking loop terminates. The float side (encodeNumber rounding, non-accumulation in encodeArgs), operator selection in encodePaths/AppendEdges and the equivalence of the chosen operators with the path are NOT decided.",
   note="encodeNumber, encodePaths, t2op.Bytes have assumed frames only; allocation sizes assumed within limits (A-MEM). Floats are uninterpreted.",
   ref="DESIGN.md section 5 (C04)")
claimed["C01"]=dict(
   text="Constituents only: the check is the union of the table-level codec obligations that a whole-font round trip is made of - container directory/count/byte accounting (header.Write/Read), loca and glyf framing with declared size == emitted size (encodeLoca/decodeLoca, encodeLen/append, Glyphs.Encode, glyf.Decode), head, maxp, hmtx codecs field by field over byte offsets, coverage tables, CFF INDEX, cmap format 12 and table framing, post name encoding. A change that breaks the round trip by breaking one of these codecs fails that codec's obligation under C01 as well. The whole-font statement Read(Write(F)) == F, the merge precedence in sfnt.Read, makeName, the byte-level fixed point and write-twice determinism of Font.Write are NOT decided by any contract.",
   note="Same assumptions as the constituent properties (C03, C08, C09, C11, C12, C13, C14).",
   ref="DESIGN.md section 5 (C01)")
na_reasons = {"C19": "the lookup description language is parsed by goroutines connected through channels with panic/recover error reporting (D-CONC) and is a string grammar whose inverse has no contract short of a second parser (D-STR): outside what a sequential contract verifier over integers, arrays and abstract strings can express"}
m={"version":1,
 "setup_cmd":"cd /verif/engine && GOFLAGS=-mod=vendor GOPROXY=off GOSUMDB=off GOTOOLCHAIN=local go build -o ../bin/gvc ./cmd/gvc",
 "hooks":{"guard":"verif","enable":"contract files /repo/<pkg>/zz_verif_contracts.go carry //go:build verif and contain comments only; gvc loads /repo with -tags verif","baseline_off_cmd":"cd /repo && GOFLAGS=-mod=mod GOPROXY=off GOSUMDB=off GOTOOLCHAIN=local go test -vet=off -count=1 ./...","source_commits":hook_commits,"add_only":True},
 "engines":[{"name":"gvc","path":"/verif/engine","serves_properties":sorted(claimed),"kind_free_text":"own verification-condition generator over go/ssa (naive form) of the real code in /repo; contracts as //@ comments in build-tag-guarded files; obligations discharged by z3 5.1.0 / z3 4.8.12 / cvc5 1.0"}],
 "checks":[],"not_applicable":[]}
for p in props:
  if p in claimed:
    c=claimed[p]
    m["checks"].append({"property_id":p,"quick_cmd":f"./bin/gvc check --prop {p} --tier quick","thorough_cmd":f"./bin/gvc check --prop {p} --tier thorough","evidence_file":f"/verif/evidence/{p}.json","replay_cmd_template":"./bin/gvc replay {path}","engine":"gvc",
      "level_claimed":{"category":"proof","text":c["text"],"design_ref":c["ref"]},"level_note":c["note"],
      "technique":"contract-based deductive verification: WP/VC generation over go/ssa of the real code, SMT (z3/cvc5) discharge per obligation"})
  else:
    m["not_applicable"].append({"property_id":p,"reason":na_reasons.get(p,"kernel not yet brought under contract (work in progress)")})
json.dump(m,open('/verif/MANIFEST.json','w'),indent=1)
print("claimed:",sorted(claimed))
