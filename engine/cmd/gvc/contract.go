package main

import (
	"fmt"
	"go/ast"
	"go/parser"
	"go/token"
	"os"
	"path/filepath"
	"regexp"
	"sort"
	"strconv"
	"strings"
)

// Clause is one contract expression.
type Clause struct {
	Text string
	Expr ast.Expr
	File string
	Line int
	Free bool // assumed at call sites / loop heads but not checked (never used for code contracts; reserved)
}

type LetDef struct {
	Name string
	Expr ast.Expr
}

type ModTarget struct {
	Kind string   // "fields" (p.*), "field" (p.f), "elems" (s[*]), "ghost" (g(x)), "all"
	Expr ast.Expr // p / p.f / s / g(x)
	Text string
}

type LoopContract struct {
	Ordinal    int
	Invariants []*Clause
	Decreases  *Clause
	NoTermination bool // `decreases *`: termination of this loop is not claimed
	Decreases2 *Clause // second component of a lexicographic measure
	ExitAsserts []*Clause
	FreeInvariants []*Clause // assumed at the loop head, NOT checked: reported as assumptions
	Line       int
}

type Contract struct {
	PkgPath  string
	RecvType string // "" for functions, "*Parser" / "Parser" / "io.Reader"
	Name     string
	Params   []string // names, receiver first if any
	Results  []string
	Assumed  bool
	Lemma    bool
	FieldFunc bool // contract of a function-typed struct field (pure, assumed)
	FuncType  bool // assumed contract of the values of a named function type
	SigKey    string // "(paramtypes)(resulttypes)" as written in the header
	Props    []string
	Requires []*Clause
	Ensures  []*Clause
	EnsuresAssumed []*Clause // postconditions callers may use but that are NOT checked in the function (reported as assumption)
	PanicsIf []*Clause
	Lets     []LetDef
	Anys     [][2]string // name, type: arbitrary fixed values (universally quantified contract variables)
	Modifies []ModTarget
	HasMod   bool
	Loops    map[int]*LoopContract
	Encoder  bool // all narrowing conversions are lossless obligations
	NoPanic  bool
	Covers   []string // source snippets that must be reachable
	MayPanic bool // explicit panic(...) statements are the documented loud refusal
	Bounded  int
	File     string
	Line     int
	Header   string
	Asserts  []*Clause
	Opts     map[string]string
}

func (c *Contract) Key() string {
	if c.RecvType != "" {
		return c.PkgPath + ".(" + c.RecvType + ")." + c.Name
	}
	return c.PkgPath + "." + c.Name
}

type SpecParam struct {
	Name string
	Type ast.Expr
}

type SpecFn struct {
	Name    string
	Params  []SpecParam
	ResType ast.Expr
	Body    ast.Expr // nil for ghost
	Ghost   bool
	Rec     bool
	PkgPath string
	File    string
	Line    int
}

type ContractSet struct {
	Contracts []*Contract
	Specs     map[string]*SpecFn // key: pkgpath + "." + name, and bare name for global (assumed dir)
	Files     []string
	Assumes   []string // textual list of assumed contracts (for evidence)
}

var keywordRe = regexp.MustCompile(`^(package|opaque|any|functype|func|fieldfunc|assume|lemma|ghost|pred|spec|requires|ensures_assumed|ensures|modifies|panics_if|let|loop|invariant|free_invariant|decreases|exit_assert|props|encoder|nopanic|may_panic|return_assert|cover|bounded|assert|opt)\b`)

// readContractFile extracts //@ lines and parses them.
func (cs *ContractSet) readContractFile(path, pkgPath string) error {
	data, err := os.ReadFile(path)
	if err != nil {
		return err
	}
	cs.Files = append(cs.Files, path)
	type line struct {
		n    int
		text string
	}
	var lines []line
	for i, l := range strings.Split(string(data), "\n") {
		t := strings.TrimSpace(l)
		if !strings.HasPrefix(t, "//@") {
			continue
		}
		t = strings.TrimPrefix(t, "//@")
		// strip trailing comment introduced by " // "
		if k := strings.Index(t, " // "); k >= 0 {
			t = t[:k]
		}
		t = strings.TrimSpace(t)
		if t == "" {
			continue
		}
		lines = append(lines, line{i + 1, t})
	}
	// join continuation lines
	var joined []line
	for _, l := range lines {
		if keywordRe.MatchString(l.text) || len(joined) == 0 {
			joined = append(joined, l)
		} else {
			joined[len(joined)-1].text += " " + l.text
		}
	}
	var cur *Contract
	var curLoop *LoopContract
	for _, l := range joined {
		kw := keywordRe.FindString(l.text)
		rest := strings.TrimSpace(l.text[len(kw):])
		mk := func(text string) (*Clause, error) {
			e, err := parseContractExpr(text)
			if err != nil {
				return nil, fmt.Errorf("%s:%d: %v (in %q)", path, l.n, err, text)
			}
			return &Clause{Text: text, Expr: e, File: path, Line: l.n}, nil
		}
		switch kw {
		case "package":
			pkgPath = strings.TrimSpace(rest)
			continue
		}
		switch kw {
		case "func", "assume", "lemma", "fieldfunc", "functype":
			hdr := rest
			assumed := kw == "assume"
			if assumed {
				hdr = strings.TrimSpace(strings.TrimPrefix(hdr, "func"))
			}
			if kw == "lemma" {
				hdr = strings.TrimSpace(strings.TrimPrefix(hdr, "func"))
			}
			var props []string
			if k := strings.Index(hdr, "props:"); k >= 0 {
				props = strings.Fields(hdr[k+len("props:"):])
				hdr = strings.TrimSpace(hdr[:k])
			}
			c, err := parseHeader(hdr)
			if err != nil {
				return fmt.Errorf("%s:%d: %v", path, l.n, err)
			}
			c.PkgPath = pkgPath
			c.Assumed = assumed
			c.Lemma = kw == "lemma"
			c.FieldFunc = kw == "fieldfunc"
			if c.FieldFunc {
				c.Assumed = true
			}
			// functype T(params) (results): assumed contract of every value of the
			// named function type T (calls through such a value use it)
			c.FuncType = kw == "functype"
			if c.FuncType {
				c.Assumed = true
			}
			c.Props = props
			c.File, c.Line, c.Header = path, l.n, hdr
			c.Loops = map[int]*LoopContract{}
			c.Opts = map[string]string{}
			cs.Contracts = append(cs.Contracts, c)
			if assumed {
				cs.Assumes = append(cs.Assumes, hdr)
			}
			cur, curLoop = c, nil
		case "ghost", "pred", "spec", "opaque":
			opaque := kw == "opaque"
			if opaque {
				// opaque spec f(...) T = body: kept as an uninterpreted function with
				// a defining axiom (like a recursive spec) instead of being expanded
				// at every use; keeps quantified formulas over a large body small
				f := strings.Fields(rest)
				if len(f) == 0 || (f[0] != "spec" && f[0] != "pred") {
					return fmt.Errorf("%s:%d: opaque must be followed by spec or pred", path, l.n)
				}
				kw = f[0]
				rest = strings.TrimSpace(strings.TrimPrefix(rest, f[0]))
			}
			sp, err := parseSpec(kw, rest)
			if err != nil {
				return fmt.Errorf("%s:%d: %v", path, l.n, err)
			}
			if opaque {
				sp.Rec = true
			}
			sp.PkgPath, sp.File, sp.Line = pkgPath, path, l.n
			cs.Specs[pkgPath+"."+sp.Name] = sp
			if _, dup := cs.Specs[sp.Name]; !dup {
				cs.Specs[sp.Name] = sp
			}
			cur, curLoop = nil, nil
		default:
			if cur == nil {
				return fmt.Errorf("%s:%d: clause %q outside a function contract", path, l.n, kw)
			}
			switch kw {
			case "props":
				cur.Props = append(cur.Props, strings.Fields(rest)...)
			case "requires":
				c, err := mk(rest)
				if err != nil {
					return err
				}
				cur.Requires = append(cur.Requires, splitConj(c)...)
			case "ensures":
				c, err := mk(rest)
				if err != nil {
					return err
				}
				cur.Ensures = append(cur.Ensures, c)
			case "ensures_assumed":
				c, err := mk(rest)
				if err != nil {
					return err
				}
				cur.EnsuresAssumed = append(cur.EnsuresAssumed, c)
			case "assert", "return_assert":
				c, err := mk(rest)
				if err != nil {
					return err
				}
				cur.Asserts = append(cur.Asserts, c)
			case "panics_if":
				c, err := mk(rest)
				if err != nil {
					return err
				}
				cur.PanicsIf = append(cur.PanicsIf, c)
			case "any":
				// any x uint16, y int: arbitrary but fixed values; a clause over them
				// holds for every value (quantifier-free universal statement)
				for _, part := range splitTop(rest, ',') {
					fs := strings.Fields(part)
					if len(fs) != 2 {
						return fmt.Errorf("%s:%d: bad any declaration %q", path, l.n, part)
					}
					cur.Anys = append(cur.Anys, [2]string{fs[0], fs[1]})
				}
			case "let":
				for _, part := range splitTop(rest, ';') {
					k := strings.Index(part, "=")
					if k < 0 {
						return fmt.Errorf("%s:%d: bad let", path, l.n)
					}
					e, err := parseContractExpr(strings.TrimSpace(part[k+1:]))
					if err != nil {
						return fmt.Errorf("%s:%d: %v", path, l.n, err)
					}
					cur.Lets = append(cur.Lets, LetDef{strings.TrimSpace(part[:k]), e})
				}
			case "modifies":
				cur.HasMod = true
				for _, part := range splitTop(rest, ',') {
					part = strings.TrimSpace(part)
					if part == "" || part == "nothing" {
						continue
					}
					mt, err := parseModTarget(part)
					if err != nil {
						return fmt.Errorf("%s:%d: %v", path, l.n, err)
					}
					cur.Modifies = append(cur.Modifies, mt)
				}
			case "cover":
				cur.Covers = append(cur.Covers, strings.Trim(strings.TrimSpace(rest), "\""))
			case "encoder":
				cur.Encoder = true
			case "nopanic":
				cur.NoPanic = true
			case "may_panic":
				cur.MayPanic = true
			case "bounded":
				n, _ := strconv.Atoi(strings.TrimPrefix(strings.TrimSpace(rest), "unroll="))
				cur.Bounded = n
			case "opt":
				kv := strings.SplitN(rest, "=", 2)
				if len(kv) == 2 {
					cur.Opts[strings.TrimSpace(kv[0])] = strings.TrimSpace(kv[1])
				} else {
					cur.Opts[strings.TrimSpace(rest)] = "1"
				}
			case "loop":
				n, err := strconv.Atoi(strings.TrimSpace(rest))
				if err != nil {
					return fmt.Errorf("%s:%d: bad loop ordinal", path, l.n)
				}
				curLoop = &LoopContract{Ordinal: n, Line: l.n}
				cur.Loops[n] = curLoop
			case "invariant":
				if curLoop == nil {
					return fmt.Errorf("%s:%d: invariant outside loop", path, l.n)
				}
				c, err := mk(rest)
				if err != nil {
					return err
				}
				curLoop.Invariants = append(curLoop.Invariants, splitConj(c)...)
			case "free_invariant":
				if curLoop == nil {
					return fmt.Errorf("%s:%d: free_invariant outside loop", path, l.n)
				}
				c, err := mk(rest)
				if err != nil {
					return err
				}
				c.Free = true
				curLoop.FreeInvariants = append(curLoop.FreeInvariants, c)
			case "exit_assert":
				if curLoop == nil {
					return fmt.Errorf("%s:%d: exit_assert outside loop", path, l.n)
				}
				c, err := mk(rest)
				if err != nil {
					return err
				}
				curLoop.ExitAsserts = append(curLoop.ExitAsserts, c)
			case "decreases":
				if curLoop == nil {
					return fmt.Errorf("%s:%d: decreases outside loop", path, l.n)
				}
				if strings.TrimSpace(rest) == "*" {
					curLoop.NoTermination = true
					break
				}
				parts := splitTop(rest, ',')
				c, err := mk(strings.TrimSpace(parts[0]))
				if err != nil {
					return err
				}
				curLoop.Decreases = c
				if len(parts) == 2 {
					c2, err := mk(strings.TrimSpace(parts[1]))
					if err != nil {
						return err
					}
					curLoop.Decreases2 = c2
				}
			}
		}
	}
	return nil
}

// splitConj splits a clause whose top-level operator is && into one clause
// per conjunct (goal splitting: each is its own obligation).
func splitConj(c *Clause) []*Clause {
	var out []*Clause
	var walk func(e ast.Expr)
	walk = func(e ast.Expr) {
		if p, ok := e.(*ast.ParenExpr); ok {
			if b, ok := p.X.(*ast.BinaryExpr); ok && b.Op == token.LAND {
				walk(b.X)
				walk(b.Y)
				return
			}
		}
		if b, ok := e.(*ast.BinaryExpr); ok && b.Op == token.LAND {
			walk(b.X)
			walk(b.Y)
			return
		}
		out = append(out, &Clause{Text: exprString(e), Expr: e, File: c.File, Line: c.Line})
	}
	walk(c.Expr)
	if len(out) == 1 {
		out[0].Text = c.Text
	}
	return out
}

func parseHeader(hdr string) (*Contract, error) {
	// qualified function names (pkg.Func) are not valid Go; rewrite "a.B(" at top.
	src := "package x\nfunc " + hdr + "\n"
	fset := token.NewFileSet()
	f, err := parser.ParseFile(fset, "hdr.go", src, 0)
	if err != nil {
		return nil, fmt.Errorf("bad contract header %q: %v", hdr, err)
	}
	fd, ok := f.Decls[0].(*ast.FuncDecl)
	if !ok {
		return nil, fmt.Errorf("bad contract header %q", hdr)
	}
	c := &Contract{Name: fd.Name.Name}
	if fd.Recv != nil && len(fd.Recv.List) == 1 {
		r := fd.Recv.List[0]
		c.RecvType = exprString(r.Type)
		if len(r.Names) == 1 {
			c.Params = append(c.Params, r.Names[0].Name)
		} else {
			c.Params = append(c.Params, "_recv")
		}
	}
	var pt, rt []string
	for _, p := range fd.Type.Params.List {
		if len(p.Names) == 0 {
			c.Params = append(c.Params, "_")
			pt = append(pt, exprString(p.Type))
		}
		for _, n := range p.Names {
			c.Params = append(c.Params, n.Name)
			pt = append(pt, exprString(p.Type))
		}
	}
	if fd.Type.Results != nil {
		for i, p := range fd.Type.Results.List {
			if len(p.Names) == 0 {
				c.Results = append(c.Results, fmt.Sprintf("result%d", i))
				rt = append(rt, exprString(p.Type))
			}
			for _, n := range p.Names {
				c.Results = append(c.Results, n.Name)
				rt = append(rt, exprString(p.Type))
			}
		}
	}
	c.SigKey = "(" + strings.Join(pt, ",") + ")(" + strings.Join(rt, ",") + ")"
	return c, nil
}

func parseSpec(kw, rest string) (*SpecFn, error) {
	// name(params) type [= body]
	body := ""
	hdr := rest
	if kw != "ghost" {
		k := indexTop(rest, " = ")
		if k < 0 {
			return nil, fmt.Errorf("spec without body: %q", rest)
		}
		hdr, body = rest[:k], strings.TrimSpace(rest[k+3:])
	}
	hdr = strings.TrimSpace(hdr)
	if kw == "pred" && strings.HasSuffix(hdr, ")") {
		hdr += " bool"
	}
	src := "package x\nfunc " + hdr + "\n"
	fset := token.NewFileSet()
	f, err := parser.ParseFile(fset, "spec.go", src, 0)
	if err != nil {
		return nil, fmt.Errorf("bad spec header %q: %v", hdr, err)
	}
	fd := f.Decls[0].(*ast.FuncDecl)
	sp := &SpecFn{Name: fd.Name.Name, Ghost: kw == "ghost"}
	for _, p := range fd.Type.Params.List {
		for _, n := range p.Names {
			sp.Params = append(sp.Params, SpecParam{n.Name, p.Type})
		}
	}
	if fd.Type.Results != nil && len(fd.Type.Results.List) == 1 {
		sp.ResType = fd.Type.Results.List[0].Type
	}
	if body != "" {
		e, err := parseContractExpr(body)
		if err != nil {
			return nil, err
		}
		sp.Body = e
		// recursive?
		ast.Inspect(e, func(n ast.Node) bool {
			if c, ok := n.(*ast.CallExpr); ok {
				if id, ok := c.Fun.(*ast.Ident); ok && id.Name == sp.Name {
					sp.Rec = true
				}
			}
			return true
		})
	}
	return sp, nil
}

func parseModTarget(s string) (ModTarget, error) {
	if s == "*" {
		return ModTarget{Kind: "all", Text: s}, nil
	}
	if strings.HasPrefix(s, "all(") && strings.HasSuffix(s, ")") {
		e, err := parser.ParseExpr(s[4 : len(s)-1])
		if err != nil {
			return ModTarget{}, err
		}
		return ModTarget{Kind: "alltype", Expr: e, Text: s}, nil
	}
	if strings.HasPrefix(s, "allelems(") && strings.HasSuffix(s, ")") {
		e, err := parser.ParseExpr(s[9 : len(s)-1])
		if err != nil {
			return ModTarget{}, err
		}
		return ModTarget{Kind: "allelems", Expr: e, Text: s}, nil
	}
	kind := "field"
	es := s
	switch {
	case strings.HasSuffix(s, ".*"):
		kind, es = "fields", strings.TrimSuffix(s, ".*")
	case strings.HasSuffix(s, "[*]"):
		kind, es = "elems", strings.TrimSuffix(s, "[*]")
	}
	e, err := parseContractExpr(es)
	if err != nil {
		return ModTarget{}, err
	}
	if kind == "field" {
		if _, ok := e.(*ast.CallExpr); ok {
			kind = "ghost"
		} else if _, ok := e.(*ast.SelectorExpr); !ok {
			return ModTarget{}, fmt.Errorf("bad modifies target %q", s)
		}
	}
	return ModTarget{Kind: kind, Expr: e, Text: s}, nil
}

// ---- expression preprocessing: ==>, forall/exists ----

func parseContractExpr(text string) (ast.Expr, error) {
	re := rewriteExpr(text)
	e, err := parser.ParseExpr(re)
	if err != nil {
		return nil, fmt.Errorf("%v [rewritten: %s]", err, re)
	}
	return e, nil
}

// splitTop splits s at top-level occurrences of sep.
func splitTop(s string, sep byte) []string {
	var out []string
	depth := 0
	start := 0
	inStr := byte(0)
	for i := 0; i < len(s); i++ {
		c := s[i]
		if inStr != 0 {
			if c == '\\' {
				i++
			} else if c == inStr {
				inStr = 0
			}
			continue
		}
		switch c {
		case '"', '\'', '`':
			inStr = c
		case '(', '[', '{':
			depth++
		case ')', ']', '}':
			depth--
		default:
			if c == sep && depth == 0 {
				out = append(out, s[start:i])
				start = i + 1
			}
		}
	}
	out = append(out, s[start:])
	return out
}

func indexTop(s, pat string) int {
	depth := 0
	inStr := byte(0)
	for i := 0; i < len(s); i++ {
		c := s[i]
		if inStr != 0 {
			if c == '\\' {
				i++
			} else if c == inStr {
				inStr = 0
			}
			continue
		}
		switch c {
		case '"', '\'', '`':
			inStr = c
		case '(', '[', '{':
			depth++
		case ')', ']', '}':
			depth--
		}
		if depth == 0 && strings.HasPrefix(s[i:], pat) {
			return i
		}
	}
	return -1
}

func indexTopWord(s, w string) int {
	from := 0
	for {
		k := indexTop(s[from:], w)
		if k < 0 {
			return -1
		}
		k += from
		before := k == 0 || !(isIdentChar(s[k-1]))
		after := k+len(w) >= len(s) || s[k+len(w)] == ' '
		if before && after {
			return k
		}
		from = k + len(w)
	}
}

func isIdentChar(c byte) bool {
	return c == '_' || c >= 'a' && c <= 'z' || c >= 'A' && c <= 'Z' || c >= '0' && c <= '9'
}

var quantRe = regexp.MustCompile(`^(forall|exists)\s+([A-Za-z_][A-Za-z0-9_]*(?:\s*,\s*[A-Za-z_][A-Za-z0-9_]*)*)\s+([A-Za-z_][A-Za-z0-9_.\[\]]*)\s*::`)

// rewriteExpr turns the contract surface syntax into a parsable Go expression:
//   A ==> B            ->  implies(A, B)
//   forall i int :: P  ->  forall(func(i int) bool { return P })
func rewriteExpr(s string) string {
	s = strings.TrimSpace(s)
	if m := quantRe.FindStringSubmatch(s); m != nil {
		body := s[len(m[0]):]
		return fmt.Sprintf("%s(func(%s %s) bool { return %s })", m[1], m[2], m[3], rewriteExpr(body))
	}
	k := indexTop(s, "==>")
	q := indexTopWord(s, "forall")
	if q2 := indexTopWord(s, "exists"); q2 >= 0 && (q < 0 || q2 < q) {
		q = q2
	}
	if q > 0 && (k < 0 || q < k) {
		// a quantifier in the middle extends to the end: A && forall x :: B
		prefix := strings.TrimSpace(s[:q])
		for _, op := range []string{"&&", "||"} {
			if strings.HasSuffix(prefix, op) {
				return "(" + rewriteExpr(strings.TrimSuffix(prefix, op)) + ") " + op + " (" + rewriteExpr(s[q:]) + ")"
			}
		}
	}
	if k >= 0 {
		return "implies(" + rewriteExpr(s[:k]) + ", " + rewriteExpr(s[k+3:]) + ")"
	}
	// a top-level && / || chain whose operands contain quantifiers: split so
	// that each operand is rewritten on its own.
	for _, op := range []string{"||", "&&"} {
		if k := indexTop(s, op); k >= 0 && (strings.Contains(s, "forall") || strings.Contains(s, "exists") || strings.Contains(s, "==>")) {
			parts := []string{}
			rest := s
			for {
				k := indexTop(rest, op)
				if k < 0 {
					parts = append(parts, rest)
					break
				}
				parts = append(parts, rest[:k])
				rest = rest[k+2:]
			}
			for i := range parts {
				parts[i] = "(" + rewriteExpr(parts[i]) + ")"
			}
			return strings.Join(parts, " "+op+" ")
		}
	}
	// recurse into bracketed groups
	var out strings.Builder
	inStr := byte(0)
	for i := 0; i < len(s); i++ {
		c := s[i]
		if inStr != 0 {
			out.WriteByte(c)
			if c == '\\' && i+1 < len(s) {
				i++
				out.WriteByte(s[i])
			} else if c == inStr {
				inStr = 0
			}
			continue
		}
		if c == '"' || c == '\'' || c == '`' {
			inStr = c
			out.WriteByte(c)
			continue
		}
		if c == '(' {
			// find matching paren
			j := matchParen(s, i)
			if j < 0 {
				out.WriteString(s[i:])
				break
			}
			inner := s[i+1 : j]
			parts := splitTop(inner, ',')
			for k := range parts {
				parts[k] = rewriteExpr(parts[k])
			}
			out.WriteByte('(')
			out.WriteString(strings.Join(parts, ", "))
			out.WriteByte(')')
			i = j
			continue
		}
		out.WriteByte(c)
	}
	return out.String()
}

func matchParen(s string, i int) int {
	depth := 0
	inStr := byte(0)
	for j := i; j < len(s); j++ {
		c := s[j]
		if inStr != 0 {
			if c == '\\' {
				j++
			} else if c == inStr {
				inStr = 0
			}
			continue
		}
		switch c {
		case '"', '\'', '`':
			inStr = c
		case '(':
			depth++
		case ')':
			depth--
			if depth == 0 {
				return j
			}
		}
	}
	return -1
}

func exprString(e ast.Expr) string {
	var sb strings.Builder
	writeExpr(&sb, e)
	return strings.Join(strings.Fields(sb.String()), " ")
}

// loadContracts reads all contract files: /repo/**/zz_verif_contracts.go and
// /verif/assumed/*.spec.
func loadContracts(repo, assumedDir, modPath string) (*ContractSet, error) {
	cs := &ContractSet{Specs: map[string]*SpecFn{}}
	var files []string
	filepath.Walk(repo, func(p string, info os.FileInfo, err error) error {
		if err != nil {
			return nil
		}
		if info.IsDir() && (info.Name() == ".git" || info.Name() == "testdata") {
			return filepath.SkipDir
		}
		if !info.IsDir() && strings.HasPrefix(info.Name(), "zz_verif_") && strings.HasSuffix(info.Name(), ".go") {
			files = append(files, p)
		}
		return nil
	})
	sort.Strings(files)
	for _, p := range files {
		rel, _ := filepath.Rel(repo, filepath.Dir(p))
		pkg := modPath
		if rel != "." {
			pkg = modPath + "/" + filepath.ToSlash(rel)
		}
		if err := cs.readContractFile(p, pkg); err != nil {
			return nil, err
		}
	}
	specs, _ := filepath.Glob(filepath.Join(assumedDir, "*.spec"))
	sort.Strings(specs)
	for _, p := range specs {
		// package path from file name: io.spec -> io ; encoding_binary.spec -> encoding/binary
		base := strings.TrimSuffix(filepath.Base(p), ".spec")
		pkg := strings.ReplaceAll(base, "_", "/")
		if err := cs.readContractFile(p, pkg); err != nil {
			return nil, err
		}
	}
	return cs, nil
}
