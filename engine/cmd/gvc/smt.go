package main

import (
	"fmt"
	"math/big"
	"sort"
	"strings"
)

// Script is the growing SMT-LIB context of one function under verification.
// It is a linear list of commands; an obligation remembers the length of the
// prefix that was in scope when it was generated.
type Script struct {
	cmds     []string
	declared map[string]bool
	counter  int
	seenAssert map[string]bool
	defined  map[string]bool // names introduced by define-fun (macros: not usable in patterns)
}

func newScript() *Script {
	return &Script{declared: map[string]bool{}}
}

func (s *Script) fresh(base string) string {
	s.counter++
	return sym(fmt.Sprintf("%s!%d", base, s.counter))
}

// sym quotes a symbol if needed.
func sym(name string) string {
	simple := true
	for i, c := range name {
		if c >= 'a' && c <= 'z' || c >= 'A' && c <= 'Z' || c == '_' || c == '.' || c == '!' || c == '$' || c == '@' {
			continue
		}
		if c >= '0' && c <= '9' && i > 0 {
			continue
		}
		simple = false
		break
	}
	if simple {
		return name
	}
	name = strings.ReplaceAll(name, "|", "!")
	name = strings.ReplaceAll(name, "\\", "!")
	return "|" + name + "|"
}

func (s *Script) add(cmd string) { s.cmds = append(s.cmds, cmd) }

func (s *Script) declare(name, sort string) string {
	if !s.declared[name] {
		s.declared[name] = true
		s.add(fmt.Sprintf("(declare-fun %s () %s)", name, sort))
	}
	return name
}

func (s *Script) declareFun(name string, args []string, res string) string {
	if !s.declared[name] {
		s.declared[name] = true
		s.add(fmt.Sprintf("(declare-fun %s (%s) %s)", name, strings.Join(args, " "), res))
	}
	return name
}

// define introduces a named abbreviation for term (keeps terms linear in size).
func (s *Script) define(base, sort, term string) string {
	if isAtom(term) {
		return term
	}
	n := s.fresh(base)
	s.declared[n] = true
	if s.defined == nil {
		s.defined = map[string]bool{}
	}
	s.defined[n] = true
	s.add(fmt.Sprintf("(define-fun %s () %s %s)", n, sort, term))
	return n
}

// nameConst introduces a declared constant equal to term (usable in patterns).
func (s *Script) nameConst(base, sort, term string) string {
	n := s.fresh(base)
	s.declare(n, sort)
	s.add("(assert (= " + n + " " + term + "))")
	return n
}

func (s *Script) assert(term string) {
	if term == "true" {
		return
	}
	if s.seenAssert == nil {
		s.seenAssert = map[string]bool{}
	}
	if s.seenAssert[term] {
		return
	}
	s.seenAssert[term] = true
	s.add("(assert " + term + ")")
}

func isAtom(t string) bool {
	return !strings.ContainsAny(t, " (")
}

// ---- term constructors with light simplification ----

func and(ts ...string) string {
	var out []string
	for _, t := range ts {
		if t == "true" || t == "" {
			continue
		}
		if t == "false" {
			return "false"
		}
		out = append(out, t)
	}
	switch len(out) {
	case 0:
		return "true"
	case 1:
		return out[0]
	}
	return "(and " + strings.Join(out, " ") + ")"
}

func or(ts ...string) string {
	var out []string
	for _, t := range ts {
		if t == "false" || t == "" {
			continue
		}
		if t == "true" {
			return "true"
		}
		out = append(out, t)
	}
	switch len(out) {
	case 0:
		return "false"
	case 1:
		return out[0]
	}
	return "(or " + strings.Join(out, " ") + ")"
}

func not(t string) string {
	switch t {
	case "true":
		return "false"
	case "false":
		return "true"
	}
	if strings.HasPrefix(t, "(not ") && balancedEnd(t, 5) == len(t)-1 {
		return t[5 : len(t)-1]
	}
	return "(not " + t + ")"
}

// balancedEnd returns the index just past the s-expression starting at i.
func balancedEnd(t string, i int) int {
	if i >= len(t) {
		return i
	}
	if t[i] != '(' {
		j := i
		if t[i] == '|' {
			j++
			for j < len(t) && t[j] != '|' {
				j++
			}
			return j + 1
		}
		for j < len(t) && t[j] != ' ' && t[j] != ')' {
			j++
		}
		return j
	}
	depth := 0
	inq := false
	for j := i; j < len(t); j++ {
		c := t[j]
		if inq {
			if c == '|' {
				inq = false
			}
			continue
		}
		switch c {
		case '|':
			inq = true
		case '(':
			depth++
		case ')':
			depth--
			if depth == 0 {
				return j + 1
			}
		}
	}
	return len(t)
}

func implies(a, b string) string {
	if a == "true" {
		return b
	}
	if a == "false" || b == "true" {
		return "true"
	}
	return "(=> " + a + " " + b + ")"
}

func ite(c, a, b string) string {
	if c == "true" {
		return a
	}
	if c == "false" {
		return b
	}
	if a == b {
		return a
	}
	return "(ite " + c + " " + a + " " + b + ")"
}

func eq(a, b string) string {
	if a == b {
		return "true"
	}
	if ia, ok := litInt(a); ok {
		if ib, ok := litInt(b); ok {
			if ia.Cmp(ib) == 0 {
				return "true"
			}
			return "false"
		}
	}
	return "(= " + a + " " + b + ")"
}

func sel(a, i string) string      { return "(select " + a + " " + i + ")" }
func store(a, i, v string) string { return "(store " + a + " " + i + " " + v + ")" }

func num(n int64) string { return numBig(big.NewInt(n)) }

func numBig(n *big.Int) string {
	if n.Sign() < 0 {
		return "(- " + new(big.Int).Neg(n).String() + ")"
	}
	return n.String()
}

func litInt(t string) (*big.Int, bool) {
	if t == "" {
		return nil, false
	}
	if t[0] >= '0' && t[0] <= '9' {
		n, ok := new(big.Int).SetString(t, 10)
		return n, ok
	}
	if strings.HasPrefix(t, "(- ") && strings.HasSuffix(t, ")") {
		n, ok := new(big.Int).SetString(t[3:len(t)-1], 10)
		if ok {
			return n.Neg(n), true
		}
	}
	return nil, false
}

func arith(op string, a, b string) string {
	ia, oka := litInt(a)
	ib, okb := litInt(b)
	if oka && okb {
		r := new(big.Int)
		switch op {
		case "+":
			return numBig(r.Add(ia, ib))
		case "-":
			return numBig(r.Sub(ia, ib))
		case "*":
			return numBig(r.Mul(ia, ib))
		}
	}
	switch op {
	case "+":
		if oka && ia.Sign() == 0 {
			return b
		}
		if okb && ib.Sign() == 0 {
			return a
		}
	case "-":
		if okb && ib.Sign() == 0 {
			return a
		}
	case "*":
		if oka && ia.Cmp(big.NewInt(1)) == 0 {
			return b
		}
		if okb && ib.Cmp(big.NewInt(1)) == 0 {
			return a
		}
		if (oka && ia.Sign() == 0) || (okb && ib.Sign() == 0) {
			return "0"
		}
	}
	return "(" + op + " " + a + " " + b + ")"
}

func cmp(op string, a, b string) string {
	ia, oka := litInt(a)
	ib, okb := litInt(b)
	if oka && okb {
		c := ia.Cmp(ib)
		var r bool
		switch op {
		case "<":
			r = c < 0
		case "<=":
			r = c <= 0
		case ">":
			r = c > 0
		case ">=":
			r = c >= 0
		}
		if r {
			return "true"
		}
		return "false"
	}
	return "(" + op + " " + a + " " + b + ")"
}

func pow2(k uint) *big.Int { return new(big.Int).Lsh(big.NewInt(1), k) }

// prelude: sorts and helper functions shared by every query.
const prelude = `(set-option :produce-models true)
(set-logic ALL)
(declare-sort Str 0)
(declare-sort Flt 0)
(declare-fun gstr.len (Str) Int)
(declare-fun gstr.at (Str Int) Int)
(declare-fun gstr.cat (Str Str) Str)
(declare-fun gstr.empty () Str)
(declare-fun flt.zero () Flt)
(declare-fun zarr1.Str () (Array Int Str))
(declare-fun zarr2.Str () (Array Int (Array Int Str)))
(declare-fun zarr1.Flt () (Array Int Flt))
(declare-fun zarr2.Flt () (Array Int (Array Int Flt)))
(assert (= (gstr.len gstr.empty) 0))
(assert (forall ((i Int)) (! (= (select zarr1.Str i) gstr.empty) :pattern ((select zarr1.Str i)))))
(assert (forall ((i Int)) (! (= (select zarr2.Str i) zarr1.Str) :pattern ((select zarr2.Str i)))))
(assert (forall ((i Int)) (! (= (select zarr1.Flt i) flt.zero) :pattern ((select zarr1.Flt i)))))
(assert (forall ((i Int)) (! (= (select zarr2.Flt i) zarr1.Flt) :pattern ((select zarr2.Flt i)))))
(assert (forall ((s Str)) (! (>= (gstr.len s) 0) :pattern ((gstr.len s)))))
(assert (forall ((s Str) (i Int)) (! (and (<= 0 (gstr.at s i)) (<= (gstr.at s i) 255)) :pattern ((gstr.at s i)))))
(assert (forall ((s Str) (t Str)) (! (= (gstr.len (gstr.cat s t)) (+ (gstr.len s) (gstr.len t))) :pattern ((gstr.cat s t)))))
(declare-fun bit.and (Int Int) Int)
(declare-fun bit.or (Int Int) Int)
(declare-fun bit.xor (Int Int) Int)
(define-fun imin ((a Int) (b Int)) Int (ite (<= a b) a b))
(define-fun imax ((a Int) (b Int)) Int (ite (>= a b) a b))
(define-fun iabs ((a Int)) Int (ite (>= a 0) a (- a)))
(define-fun wrap_u8 ((x Int)) Int (mod x 256))
(define-fun wrap_u16 ((x Int)) Int (mod x 65536))
(define-fun wrap_u32 ((x Int)) Int (mod x 4294967296))
(define-fun wrap_u64 ((x Int)) Int (mod x 18446744073709551616))
(define-fun wrap_s8 ((x Int)) Int (- (mod (+ x 128) 256) 128))
(define-fun wrap_s16 ((x Int)) Int (- (mod (+ x 32768) 65536) 32768))
(define-fun wrap_s32 ((x Int)) Int (- (mod (+ x 2147483648) 4294967296) 2147483648))
(define-fun wrap_s64 ((x Int)) Int (ite (and (<= (- 9223372036854775808) x) (<= x 9223372036854775807)) x (- (mod (+ x 9223372036854775808) 18446744073709551616) 9223372036854775808)))
(define-fun tdiv ((a Int) (b Int)) Int (ite (>= a 0) (ite (> b 0) (div a b) (- (div a (- b)))) (ite (> b 0) (- (div (- a) b)) (div (- a) (- b)))))
(define-fun tmod ((a Int) (b Int)) Int (- a (* b (tdiv a b))))
`

// string literal table: each distinct literal becomes a Str constant with
// length and byte axioms.
type strTable struct {
	lits map[string]string
}

func (s *Script) strLit(tab *strTable, v string) string {
	if v == "" {
		return "gstr.empty"
	}
	if n, ok := tab.lits[v]; ok {
		return n
	}
	n := sym(fmt.Sprintf("strlit!%d", len(tab.lits)))
	tab.lits[v] = n
	s.declare(n, "Str")
	s.add(fmt.Sprintf("; literal %q", v))
	s.assert(eq("(gstr.len "+n+")", num(int64(len(v)))))
	if len(v) <= 64 {
		for i := 0; i < len(v); i++ {
			s.assert(eq(fmt.Sprintf("(gstr.at %s %d)", n, i), num(int64(v[i]))))
		}
	}
	return n
}

func sortedKeys[V any](m map[string]V) []string {
	ks := make([]string, 0, len(m))
	for k := range m {
		ks = append(ks, k)
	}
	sort.Strings(ks)
	return ks
}

// usesDefined reports whether term mentions a define-fun abbreviation.
func (s *Script) usesDefined(term string) bool {
	i := 0
	for i < len(term) {
		c := term[i]
		if c == '(' || c == ')' || c == ' ' {
			i++
			continue
		}
		j := balancedEnd(term, i)
		if s.defined[term[i:j]] {
			return true
		}
		if j <= i {
			j = i + 1
		}
		i = j
	}
	return false
}
