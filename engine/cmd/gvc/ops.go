package main

import (
	"go/constant"
	"go/token"
	"go/types"
	"math/big"
	"strings"
)

// wrapTo wraps the mathematical integer term t (with optional interval
// lo..hi) into Go type ty.  If the interval proves that no wrap can occur
// the term is returned unchanged.
func (f *FuncVC) wrapTo(t string, lo, hi *big.Int, ty types.Type) *Val {
	b := basicOf(ty)
	r := &Val{K: KInt, Ty: ty, T: t}
	if b == nil {
		return r
	}
	tlo, thi, ok := intRange(b)
	if !ok {
		r.Lo, r.Hi = lo, hi
		return r
	}
	if n, isLit := litInt(t); isLit {
		lo, hi = n, n
	}
	if lo != nil && hi != nil && lo.Cmp(tlo) >= 0 && hi.Cmp(thi) <= 0 {
		r.Lo, r.Hi = lo, hi
		return r
	}
	if n, isLit := litInt(t); isLit {
		// constant fold the wrap
		m := new(big.Int).Add(new(big.Int).Sub(thi, tlo), big.NewInt(1))
		x := new(big.Int).Sub(n, tlo)
		x.Mod(x, m)
		x.Add(x, tlo)
		r.T = numBig(x)
		r.Lo, r.Hi = x, x
		return r
	}
	r.T = "(" + wrapName(b) + " " + t + ")"
	r.Lo, r.Hi = tlo, thi
	return r
}

func bounds(v *Val) (lo, hi *big.Int) {
	if n, ok := litInt(v.T); ok {
		return n, n
	}
	lo, hi = v.Lo, v.Hi
	if lo == nil || hi == nil {
		if b := basicOf(v.Ty); b != nil {
			if tlo, thi, ok := intRange(b); ok {
				if lo == nil {
					lo = tlo
				}
				if hi == nil {
					hi = thi
				}
			}
		}
	}
	return
}

func bigMin(xs ...*big.Int) *big.Int {
	m := xs[0]
	for _, x := range xs[1:] {
		if x.Cmp(m) < 0 {
			m = x
		}
	}
	return m
}
func bigMax(xs ...*big.Int) *big.Int {
	m := xs[0]
	for _, x := range xs[1:] {
		if x.Cmp(m) > 0 {
			m = x
		}
	}
	return m
}

// andConst computes x & c for a non-negative constant c as arithmetic.
func andConst(x string, c *big.Int) string {
	if c.Sign() == 0 {
		return "0"
	}
	// decompose c into runs of consecutive one bits
	res := "0"
	n := c.BitLen()
	i := 0
	for i < n {
		if c.Bit(i) == 0 {
			i++
			continue
		}
		j := i
		for j < n && c.Bit(j) == 1 {
			j++
		}
		// bits i..j-1
		part := x
		if i > 0 {
			part = "(div " + x + " " + pow2(uint(i)).String() + ")"
		}
		part = "(mod " + part + " " + pow2(uint(j-i)).String() + ")"
		if i > 0 {
			part = "(* " + part + " " + pow2(uint(i)).String() + ")"
		}
		res = arith("+", res, part)
		i = j
	}
	return res
}

func trailingZeros(c *big.Int) uint {
	if c.Sign() == 0 {
		return 64
	}
	var n uint
	for c.Bit(int(n)) == 0 {
		n++
	}
	return n
}

// intBinop implements Go integer arithmetic on machine integers.
func (f *FuncVC) intBinop(st *State, op token.Token, x, y *Val, ty types.Type) *Val {
	xlo, xhi := bounds(x)
	ylo, yhi := bounds(y)
	known := xlo != nil && xhi != nil && ylo != nil && yhi != nil
	switch op {
	case token.ADD:
		var lo, hi *big.Int
		if known {
			lo, hi = new(big.Int).Add(xlo, ylo), new(big.Int).Add(xhi, yhi)
		}
		r := f.wrapTo(arith("+", x.T, y.T), lo, hi, ty)
		if x.LowZero > 0 && y.LowZero > 0 {
			r.LowZero = min(x.LowZero, y.LowZero)
		}
		return r
	case token.SUB:
		var lo, hi *big.Int
		if known {
			lo, hi = new(big.Int).Sub(xlo, yhi), new(big.Int).Sub(xhi, ylo)
		}
		return f.wrapTo(arith("-", x.T, y.T), lo, hi, ty)
	case token.MUL:
		var lo, hi *big.Int
		if known {
			a, b, c, d := new(big.Int).Mul(xlo, ylo), new(big.Int).Mul(xlo, yhi), new(big.Int).Mul(xhi, ylo), new(big.Int).Mul(xhi, yhi)
			lo, hi = bigMin(a, b, c, d), bigMax(a, b, c, d)
		}
		r := f.wrapTo(arith("*", x.T, y.T), lo, hi, ty)
		if _, xl := litInt(x.T); !xl && f.pure == 0 && st != nil {
			if _, yl := litInt(y.T); !yl && strings.HasPrefix(r.T, "(wrap") {
				// product of two symbolic values: state the (valid) range lemma
				// |x|,|y| <= 2^31 ==> |x*y| <= 2^62 and the sign rule, so that the
				// solver can drop the wrap without nonlinear reasoning
				p := arith("*", x.T, y.T)
				f.fact(st, implies(and(cmp("<=", "(- 2147483648)", x.T), cmp("<=", x.T, "2147483648"), cmp("<=", "(- 2147483648)", y.T), cmp("<=", y.T, "2147483648")),
					and(cmp("<=", "(- 4611686018427387904)", p), cmp("<=", p, "4611686018427387904"))))
				f.fact(st, implies(and(cmp("<=", "0", x.T), cmp("<=", "0", y.T)), cmp("<=", "0", p)))
			}
		}
		if c, ok := litInt(y.T); ok && c.Sign() > 0 {
			r.LowZero = x.LowZero + trailingZeros(c)
		}
		return r
	case token.QUO:
		// division by zero is an obligation
		if f.pure == 0 {
			f.oblige(st, "div", f.srcAt(f.curPos), not(eq(y.T, "0")))
		}
		if known && ylo.Sign() > 0 && xlo.Sign() >= 0 {
			return &Val{K: KInt, Ty: ty, T: "(div " + x.T + " " + y.T + ")", Lo: big.NewInt(0), Hi: xhi}
		}
		return f.wrapTo("(tdiv "+x.T+" "+y.T+")", nil, nil, ty)
	case token.REM:
		if f.pure == 0 {
			f.oblige(st, "div", f.srcAt(f.curPos), not(eq(y.T, "0")))
		}
		if known && ylo.Sign() > 0 && xlo.Sign() >= 0 {
			return &Val{K: KInt, Ty: ty, T: "(mod " + x.T + " " + y.T + ")", Lo: big.NewInt(0), Hi: new(big.Int).Sub(yhi, big.NewInt(1))}
		}
		r := &Val{K: KInt, Ty: ty, T: "(tmod " + x.T + " " + y.T + ")"}
		return r
	case token.SHL:
		if c, ok := litInt(y.T); ok && c.IsInt64() && c.Int64() >= 0 && c.Int64() < 128 {
			k := uint(c.Int64())
			var lo, hi *big.Int
			if xlo != nil && xhi != nil {
				lo, hi = new(big.Int).Lsh(xlo, k), new(big.Int).Lsh(xhi, k)
			}
			r := f.wrapTo(arith("*", x.T, pow2(k).String()), lo, hi, ty)
			r.LowZero = x.LowZero + k
			if mx := maskOf(x); mx != nil {
				m := new(big.Int).Lsh(mx, k)
				if _, thi, ok := intRangeOf(ty); ok && m.Cmp(thi) <= 0 {
					r.Mask = m
				}
			}
			return r
		}
		if f.pure == 0 && !isUnsigned(y.Ty) {
			f.oblige(st, "shift", f.srcAt(f.curPos), cmp(">=", y.T, "0"))
		}
		p := f.pow2Term(st, y)
		return f.wrapTo(arith("*", x.T, p), nil, nil, ty)
	case token.SHR:
		if c, ok := litInt(y.T); ok && c.IsInt64() && c.Int64() >= 0 && c.Int64() < 128 {
			k := uint(c.Int64())
			if k%8 == 0 && k > 0 {
				if bs := f.byteDecomp(x); bs != nil && int(k/8) < len(bs) {
					// x = sum b[i]*256^i  =>  x>>8j = sum_{i>=j} b[i]*256^(i-j): linear
					rest := bs[k/8:]
					if xlo == nil || xlo.Sign() < 0 {
						// arithmetic shift of a signed value: the value stays a
						// division, its two's complement bytes are the upper bytes
						r := &Val{K: KInt, Ty: ty, T: "(div " + x.T + " " + pow2(k).String() + ")", Bytes: rest}
						if xlo != nil && xhi != nil {
							r.Lo = new(big.Int).Rsh(xlo, k)
							r.Hi = new(big.Int).Rsh(xhi, k)
						}
						return r
					}
					r := &Val{K: KInt, Ty: ty, T: byteSum(rest), Bytes: rest, Lo: big.NewInt(0)}
					r.Hi = new(big.Int).Sub(pow2(uint(8*len(rest))), big.NewInt(1))
					if xhi != nil && new(big.Int).Rsh(xhi, k).Cmp(r.Hi) < 0 {
						r.Hi = new(big.Int).Rsh(xhi, k)
					}
					return r
				}
			}
			r := &Val{K: KInt, Ty: ty, T: "(div " + x.T + " " + pow2(k).String() + ")"}
			if xlo != nil && xhi != nil {
				r.Lo = new(big.Int).Rsh(xlo, k)
				r.Hi = new(big.Int).Rsh(xhi, k)
			}
			return r
		}
		if f.pure == 0 && !isUnsigned(y.Ty) {
			f.oblige(st, "shift", f.srcAt(f.curPos), cmp(">=", y.T, "0"))
		}
		p := f.pow2Term(st, y)
		r := &Val{K: KInt, Ty: ty, T: "(div " + x.T + " " + p + ")"}
		if xlo != nil && xlo.Sign() >= 0 {
			r.Lo, r.Hi = big.NewInt(0), xhi
		}
		return r
	case token.AND:
		if c, ok := litInt(y.T); ok && c.Sign() >= 0 {
			r := &Val{K: KInt, Ty: ty, T: andConst(x.T, c), Lo: big.NewInt(0), Hi: c}
			return r
		}
		if c, ok := litInt(x.T); ok && c.Sign() >= 0 {
			return &Val{K: KInt, Ty: ty, T: andConst(y.T, c), Lo: big.NewInt(0), Hi: c}
		}
		r := &Val{K: KInt, Ty: ty, T: "(bit.and " + x.T + " " + y.T + ")"}
		if xlo != nil && xlo.Sign() >= 0 && ylo != nil && ylo.Sign() >= 0 {
			f.fact(st, and(cmp(">=", r.T, "0"), cmp("<=", r.T, x.T), cmp("<=", r.T, y.T)))
			r.Lo, r.Hi = big.NewInt(0), bigMin(xhi, yhi)
		}
		return r
	case token.OR:
		// disjoint sets of possibly-set bits: x|y = x+y
		if mx, my := maskOf(x), maskOf(y); mx != nil && my != nil && new(big.Int).And(mx, my).Sign() == 0 {
			r := f.intBinop(st, token.ADD, x, y, ty)
			r.Mask = new(big.Int).Or(mx, my)
			return r
		}
		// disjoint bit ranges: x has k low zero bits and 0 <= y < 2^k  =>  x|y = x+y
		if x.LowZero > 0 && ylo != nil && ylo.Sign() >= 0 && yhi.Cmp(pow2(x.LowZero)) < 0 {
			r := f.intBinop(st, token.ADD, x, y, ty)
			return r
		}
		if y.LowZero > 0 && xlo != nil && xlo.Sign() >= 0 && xhi.Cmp(pow2(y.LowZero)) < 0 {
			return f.intBinop(st, token.ADD, x, y, ty)
		}
		if c, ok := litInt(y.T); ok && c.Sign() >= 0 {
			// x | c = x + c - (x & c)
			return f.wrapTo("(- (+ "+x.T+" "+c.String()+") "+andConst(x.T, c)+")", nil, nil, ty)
		}
		r := &Val{K: KInt, Ty: ty, T: "(bit.or " + x.T + " " + y.T + ")"}
		if xlo != nil && xlo.Sign() >= 0 && ylo != nil && ylo.Sign() >= 0 {
			f.fact(st, and(cmp(">=", r.T, x.T), cmp(">=", r.T, y.T), cmp("<=", r.T, arith("+", x.T, y.T))))
			r.Lo = big.NewInt(0)
		}
		if tlo, thi, ok := intRangeOf(ty); ok {
			f.fact(st, and(cmp("<=", numBig(tlo), r.T), cmp("<=", r.T, numBig(thi))))
		}
		return r
	case token.XOR:
		if c, ok := litInt(y.T); ok && c.Sign() >= 0 {
			return f.wrapTo("(- (+ "+x.T+" "+c.String()+") (* 2 "+andConst(x.T, c)+"))", nil, nil, ty)
		}
		r := &Val{K: KInt, Ty: ty, T: "(bit.xor " + x.T + " " + y.T + ")"}
		if tlo, thi, ok := intRangeOf(ty); ok {
			f.fact(st, and(cmp("<=", numBig(tlo), r.T), cmp("<=", r.T, numBig(thi))))
		}
		return r
	case token.AND_NOT:
		if c, ok := litInt(y.T); ok && c.Sign() >= 0 {
			return f.wrapTo("(- "+x.T+" "+andConst(x.T, c)+")", xlo, xhi, ty)
		}
		r := &Val{K: KInt, Ty: ty, T: "(- " + x.T + " (bit.and " + x.T + " " + y.T + "))"}
		return r
	}
	f.unsup("integer operator " + op.String())
	return f.freshVal(ty, "op")
}

func byteSum(bs []string) string {
	t := bs[0]
	for i := 1; i < len(bs); i++ {
		t = arith("+", t, arith("*", bs[i], pow2(uint(8*i)).String()))
	}
	return t
}

// byteDecomp names the bytes of a non-negative value below 2^64: fresh
// constants b[i] in [0,255] with x == sum b[i]*256^i (such bytes exist for
// every x in range, so this is a definition, not an assumption).  Shifts by
// multiples of 8 and conversions to byte then stay linear.
func (f *FuncVC) byteDecomp(x *Val) []string {
	if x.Bytes != nil {
		return x.Bytes
	}
	if _, isLit := litInt(x.T); isLit {
		return nil
	}
	lo, hi := bounds(x)
	if lo == nil || hi == nil {
		return nil
	}
	if f.decomps == nil {
		f.decomps = map[string][]string{}
	}
	if bs, ok := f.decomps[x.T]; ok {
		return bs
	}
	var n int
	u := x.T
	guard := "true"
	if lo.Sign() < 0 {
		// signed: the bytes of the two's complement representation in the
		// width of the value's type, i.e. of x mod 2^(8n)
		b := basicOf(x.Ty)
		if b == nil {
			return nil
		}
		tlo, thi, ok := intRange(b)
		if !ok || tlo.Sign() >= 0 || lo.Cmp(tlo) < 0 || hi.Cmp(thi) > 0 {
			return nil
		}
		n = (thi.BitLen() + 1) / 8
		if n < 2 || n > 8 {
			return nil
		}
		u = "(mod " + x.T + " " + pow2(uint(8*n)).String() + ")"
	} else {
		if hi.BitLen() > 64 || hi.BitLen() <= 8 {
			return nil
		}
		n = (hi.BitLen() + 7) / 8
		guard = and(cmp("<=", "0", x.T), cmp("<", x.T, pow2(uint(8*n)).String()))
	}
	var bs []string
	for i := 0; i < n; i++ {
		b := f.sc.fresh("byte")
		f.sc.declare(b, "Int")
		f.sc.assert(and(cmp("<=", "0", b), cmp("<=", b, "255")))
		bs = append(bs, b)
	}
	f.sc.assert(implies(guard, eq(u, byteSum(bs))))
	f.decomps[x.T] = bs
	return bs
}

// maskOf returns the set of bits that may be set in the non-negative value v.
func maskOf(v *Val) *big.Int {
	if v.Mask != nil {
		return v.Mask
	}
	lo, hi := bounds(v)
	if lo == nil || hi == nil || lo.Sign() < 0 {
		return nil
	}
	m := new(big.Int).Lsh(big.NewInt(1), uint(hi.BitLen()))
	return m.Sub(m, big.NewInt(1))
}

func intRangeOf(ty types.Type) (*big.Int, *big.Int, bool) {
	b := basicOf(ty)
	if b == nil {
		return nil, nil, false
	}
	return intRange(b)
}

// pow2Term returns 2^y for a non-constant shift count.
func (f *FuncVC) pow2Term(st *State, y *Val) string {
	f.sc.declareFun("pow2", []string{"Int"}, "Int")
	if !f.sc.declared["pow2.ax"] {
		f.sc.declared["pow2.ax"] = true
		f.sc.assert("(= (pow2 0) 1)")
		for i := 1; i <= 64; i++ {
			f.sc.assert("(= (pow2 " + num(int64(i)) + ") " + pow2(uint(i)).String() + ")")
		}
		f.sc.assert("(forall ((k Int)) (! (=> (>= k 0) (>= (pow2 k) 1)) :pattern ((pow2 k))))")
	}
	return "(pow2 " + y.T + ")"
}

func (f *FuncVC) constVal(c *ssaConst) *Val {
	return nil
}

type ssaConst struct{}

func (f *FuncVC) fromConstant(cv constant.Value, ty types.Type) *Val {
	switch kindOf(ty) {
	case KInt:
		if cv == nil {
			return &Val{K: KInt, Ty: ty, T: "0", Lo: big.NewInt(0), Hi: big.NewInt(0)}
		}
		iv := constant.ToInt(cv)
		if iv.Kind() != constant.Int {
			f.unsup("non-integer constant for integer type")
			return f.freshVal(ty, "const")
		}
		n, _ := new(big.Int).SetString(iv.ExactString(), 10)
		return &Val{K: KInt, Ty: ty, T: numBig(n), Lo: n, Hi: n, LowZero: lowZeroOf(n)}
	case KBool:
		if cv != nil && constant.BoolVal(cv) {
			return vBool("true")
		}
		return vBool("false")
	case KStr:
		s := ""
		if cv != nil {
			s = constant.StringVal(cv)
		}
		return &Val{K: KStr, Ty: ty, T: f.sc.strLit(f.strs, s)}
	case KFloat:
		if cv == nil {
			return &Val{K: KFloat, Ty: ty, T: "flt.zero"}
		}
		fl, _ := constant.Float64Val(cv)
		if fl == 0 {
			return &Val{K: KFloat, Ty: ty, T: "flt.zero"}
		}
		n := sym("fltlit!" + cv.ExactString())
		f.sc.declare(n, "Flt")
		return &Val{K: KFloat, Ty: ty, T: n}
	}
	return zeroVal(ty)
}

func lowZeroOf(n *big.Int) uint {
	if n.Sign() <= 0 {
		return 0
	}
	return trailingZeros(n)
}
