package main

import (
	"flag"
	"fmt"
	"os"
	"sort"
	"strings"
	"time"
)

func usage() {
	fmt.Fprintln(os.Stderr, "usage: gvc check --prop Cxx [--tier quick|thorough] | gvc verify --func substr | gvc replay file | gvc selftest [--prop Cxx]")
	os.Exit(2)
}

const verifDir = "/verif"

func main() {
	if len(os.Args) < 2 {
		usage()
	}
	switch os.Args[1] {
	case "verify":
		cmdVerify(os.Args[2:])
	case "check":
		cmdCheck(os.Args[2:])
	case "replay":
		cmdReplay(os.Args[2:])
	case "selftest":
		cmdSelftest(os.Args[2:])
	default:
		usage()
	}
}

// verifyFunc generates (two passes: heap-universe discovery, then the real
// run) the obligations of one function.
func verifyFunc(eng *Engine, c *Contract) *FuncVC {
	fn := eng.ssaFunc(c)
	if fn == nil {
		return nil
	}
	universe := map[string]string{}
	var f *FuncVC
	for pass := 0; pass < 4; pass++ {
		f = newFuncVC(eng, fn, c, universe)
		f.generate()
		grew := false
		for n, s := range f.heapSorts {
			if _, ok := universe[n]; !ok {
				universe[n] = s
				grew = true
			}
		}
		if !grew && pass > 0 {
			break
		}
	}
	return f
}

func cmdVerify(args []string) {
	fs := flag.NewFlagSet("verify", flag.ExitOnError)
	pat := fs.String("func", "", "substring of the contract key")
	timeout := fs.Duration("timeout", 10*time.Second, "per-obligation timeout")
	keep := fs.Bool("keep", false, "keep query files")
	verbose := fs.Bool("v", false, "list all obligations")
	dump := fs.String("dump", "", "write the query of the obligation with this name substring to stdout")
	repo := fs.String("repo", "/repo", "repository")
	fs.Parse(args)
	t0 := time.Now()
	eng, err := loadEngine(*repo, verifDir+"/assumed", nil)
	if err != nil {
		fmt.Fprintln(os.Stderr, "gvc:", err)
		os.Exit(2)
	}
	fmt.Printf("loaded in %.1fs, %d contracts, %d unbound\n", time.Since(t0).Seconds(), len(eng.cs.Contracts), len(eng.unbound))
	for _, u := range eng.unbound {
		fmt.Println("STALE-CONTRACT", u)
	}
	var all []*Obligation
	var fvs []*FuncVC
	for _, c := range eng.cs.Contracts {
		if c.Assumed || !strings.Contains(c.Key(), *pat) {
			continue
		}
		f := verifyFunc(eng, c)
		if f == nil {
			continue
		}
		fvs = append(fvs, f)
		all = append(all, f.obls...)
	}
	if *dump != "" {
		for _, o := range all {
			if o.Name == *dump {
				fmt.Print(o.query(true))
				return
			}
		}
		for _, o := range all {
			if strings.Contains(o.Name, *dump) {
				fmt.Print(o.query(true))
				return
			}
		}
		fmt.Println("no such obligation")
		return
	}
	cfg := &SolveConfig{Timeout: *timeout, Dir: scratchDir(), Workers: 16, KeepFiles: *keep}
	t1 := time.Now()
	solveAll(all, cfg)
	for _, f := range fvs {
		nOK, nBad := 0, 0
		for _, o := range f.obls {
			if o.Status == "discharged" {
				nOK++
			} else {
				nBad++
			}
		}
		fmt.Printf("== %s: %d obligations, %d discharged, %d not; unsupported=%d\n", f.name(), len(f.obls), nOK, nBad, len(f.unsupported))
		for _, u := range uniq(f.unsupported) {
			fmt.Println("   UNSUPPORTED:", u)
		}
		for _, h := range sortedKeys(f.havocCallee) {
			fmt.Println("   havoc callee:", h)
		}
		for _, o := range f.obls {
			if o.Status != "discharged" || *verbose {
				fmt.Printf("   [%s] %s  (%s %.2fs %dB) %s\n", o.Status, o.Name, o.Solver, o.Secs, o.QBytes, firstLine(o.Raw))
			}
		}
	}
	fmt.Printf("solve time %.1fs\n", time.Since(t1).Seconds())
}

func firstLine(s string) string {
	s = strings.TrimSpace(s)
	if k := strings.Index(s, "\n"); k >= 0 {
		s = s[:k]
	}
	if len(s) > 160 {
		s = s[:160]
	}
	return s
}

func uniq(xs []string) []string {
	m := map[string]bool{}
	var out []string
	for _, x := range xs {
		if !m[x] {
			m[x] = true
			out = append(out, x)
		}
	}
	sort.Strings(out)
	return out
}

func scratchDir() string {
	d, err := os.MkdirTemp("", "gvc-q-")
	if err != nil {
		return "/tmp"
	}
	return d
}

func cmdSelftest(args []string) { fmt.Println("not implemented"); os.Exit(2) }
