package main

import (
	"fmt"
	"go/ast"
	"go/token"
	"go/types"
	"sort"
	"strings"

	"golang.org/x/tools/go/ssa"
)

func newFuncVC(eng *Engine, fn *ssa.Function, con *Contract, universe map[string]string) *FuncVC {
	f := &FuncVC{eng: eng, fn: fn, con: con, sc: newScript(), strs: &strTable{lits: map[string]string{}},
		regs: map[ssa.Value]*Val{}, localAlloc: map[*ssa.Alloc]bool{}, nameCount: map[string]int{},
		heapSorts: map[string]string{}, universe: universe, typeTags: map[string]int{}, globals: map[*ssa.Global]*Val{},
		paramEntry: map[string]*Val{}, loops: map[*ssa.BasicBlock]*loopInfo{}, backEdges: map[edge]bool{},
		edgeOut: map[edge]*edgeState{}, havocCallee: map[string]bool{}, usedAssumed: map[string]bool{}, usedCon: map[string]bool{},
		declPos: map[token.Pos][]*ssa.Alloc{}, recSpecs: map[string]*recSpecInfo{}, covered: map[string]bool{}, allocOrder: map[*ssa.Alloc]int{}}
	return f
}

// generate runs the symbolic execution and fills f.obls.
func (f *FuncVC) generate() {
	fn := f.fn
	if len(fn.Blocks) == 0 {
		f.unsup("function without body")
		return
	}
	for _, b := range fn.Blocks {
		for _, ins := range b.Instrs {
			switch ins.(type) {
			case *ssa.Defer, *ssa.Go, *ssa.Select, *ssa.Send:
				f.unsup(fmt.Sprintf("function uses %T (D-CONC)", ins))
				return
			}
			if a, ok := ins.(*ssa.Alloc); ok {
				f.allocOrder[a] = len(f.allocOrder)
			}
			if a, ok := ins.(*ssa.Alloc); ok && a.Pos().IsValid() {
				f.declPos[a.Pos()] = append(f.declPos[a.Pos()], a)
			}
		}
	}
	if fn.Recover != nil {
		f.unsup("function has a recover block")
		return
	}
	f.findLoops()
	if !f.bindLoops() {
		return
	}

	st := &State{cells: map[*ssa.Alloc]*Val{}, heaps: map[string]string{}, pc: "true"}
	st.wm = f.sc.declare("wm@0", "Int")
	f.sc.assert(cmp(">=", st.wm, "1"))
	f.wmEntry = st.wm
	// parameters
	for i, p := range fn.Params {
		v := f.freshTyped(st, p.Type(), "in."+p.Name())
		f.regs[p] = v
		name := p.Name()
		if f.con != nil && i < len(f.con.Params) {
			name = f.con.Params[i]
		}
		f.paramEntry[name] = v
		f.paramEntry[p.Name()] = v
	}
	for _, fv := range fn.FreeVars {
		f.regs[fv] = f.freshTyped(st, fv.Type(), "free."+fv.Name())
	}
	f.entry = st.clone()
	if f.con != nil {
		if n := len(f.con.Params); n != len(fn.Params) {
			f.unsup(fmt.Sprintf("contract header has %d parameters, function has %d", n, len(fn.Params)))
			return
		}
		if n := fn.Signature.Results().Len(); n != len(f.con.Results) {
			f.unsup(fmt.Sprintf("contract header has %d results, function has %d", len(f.con.Results), n))
			return
		}
		ev := f.entryEval(st)
		for _, c := range f.con.Requires {
			f.sc.add("; requires " + c.Text)
			f.sc.assert(ev.assuming().evalBool(c.Expr))
		}
		f.modTargets = f.resolveMods(ev, f.con.Modifies)
		f.entry = st.clone()
		// vacuity guard: the precondition must be satisfiable
		o := &Obligation{Name: f.name() + "#vacuity:requires", Kind: "vacuity", Func: f.name(), Prefix: len(f.sc.cmds), PC: "true", Goal: "false", Expect: "sat", fv: f}
		f.obls = append(f.obls, o)
	}

	order := f.rpo()
	for _, b := range order {
		f.curBlock = b
		var bst *State
		if b == fn.Blocks[0] {
			bst = st
		} else {
			var ins []*edgeState
			for _, p := range b.Preds {
				if f.backEdges[edge{p, b}] {
					continue
				}
				if es, ok := f.edgeOut[edge{p, b}]; ok {
					ins = append(ins, es)
				}
			}
			bst = f.mergeStates(b, ins)
			if bst == nil {
				continue
			}
		}
		if li := f.loops[b]; li != nil {
			f.loopHead(bst, li)
		}
		for _, ins := range b.Instrs {
			if bst.dead {
				break
			}
			f.step(bst, ins)
		}
		if bst.dead {
			continue
		}
		f.terminator(bst, b)
	}
	if f.con != nil {
		for _, c := range f.con.Covers {
			if !f.covered[c] {
				// the statement was not even reached by the executor
				f.obls = append(f.obls, &Obligation{Name: f.name() + "#reach:" + c, Kind: "reach", Func: f.name(), Prefix: len(f.sc.cmds), PC: "false", Goal: "false", Expect: "sat", fv: f})
			}
		}
	}
}

func (f *FuncVC) terminator(st *State, b *ssa.BasicBlock) {
	last := b.Instrs[len(b.Instrs)-1]
	out := func(to *ssa.BasicBlock, cond string) {
		ec := f.sc.define(fmt.Sprintf("e.b%d.b%d", b.Index, to.Index), "Bool", and(st.pc, cond))
		es := &edgeState{st: st, cond: ec}
		if f.backEdges[edge{b, to}] {
			f.backEdge(es, f.loops[to])
			return
		}
		if li := f.loops[b]; li != nil && !li.blocks[to] {
			f.exitAsserts(es, li)
		}
		f.edgeOut[edge{b, to}] = es
	}
	switch x := last.(type) {
	case *ssa.If:
		c := f.val(st, x.Cond)
		out(b.Succs[0], c.T)
		out(b.Succs[1], not(c.T))
	case *ssa.Jump:
		out(b.Succs[0], "true")
	case *ssa.Return:
		f.curPos = x.Pos()
		f.returnInstr(st, x)
	case *ssa.Panic:
	default:
		f.unsup(fmt.Sprintf("terminator %T", last))
	}
}

func (f *FuncVC) returnInstr(st *State, x *ssa.Return) {
	if f.con == nil {
		return
	}
	var results []*Val
	for _, r := range x.Results {
		results = append(results, f.val(st, r))
	}
	ev := f.postEval(st, results)
	for _, c := range f.con.PanicsIf {
		pe := f.entryEval(st)
		f.oblige(st, "post", "returns normally although panics_if "+c.Text, not(pe.evalBool(c.Expr)))
	}
	if len(f.con.Asserts) > 0 && x.Pos().IsValid() {
		// return_assert: evaluated at the return statement, locals and results visible;
		// checked before the postconditions so that it can serve them as a lemma
		lev := f.baseEval(st)
		lev.locals = true
		lev.pos = x.Pos()
		lev.oldEnv = f.paramEntry
		for i, r := range results {
			if i < len(f.con.Results) {
				lev.env[f.con.Results[i]] = r
			}
		}
		for _, c := range f.con.Asserts {
			if !lev.scopeHas(c.Expr) {
				continue // mentions a local that is not in scope at this return
			}
			for _, cj := range lev.evalConj(c.Expr) {
				f.oblige(st, "assert", "at return: "+cj.Label, cj.Term)
			}
		}
	}
	for _, c := range f.con.Ensures {
		f.sc.add("; ensures " + c.Text)
		for _, cj := range ev.evalConj(c.Expr) {
			f.oblige(st, "post", cj.Label, cj.Term)
		}
	}
	// cover: this return is reachable
	o := &Obligation{Name: fmt.Sprintf("%s#cover:return@b%d", f.name(), x.Block().Index), Kind: "cover", Func: f.name(), Prefix: len(f.sc.cmds), PC: st.pc, Goal: "false", Expect: "sat", fv: f}
	f.obls = append(f.obls, o)
}

// ---------------------------------------------------------------------------
// CFG

func (f *FuncVC) findLoops() {
	fn := f.fn
	for _, b := range fn.Blocks {
		for _, s := range b.Succs {
			if s.Dominates(b) {
				f.backEdges[edge{b, s}] = true
				li := f.loops[s]
				if li == nil {
					li = &loopInfo{header: s, blocks: map[*ssa.BasicBlock]bool{s: true}}
					f.loops[s] = li
				}
				// natural loop of back edge b->s
				var stack []*ssa.BasicBlock
				if !li.blocks[b] {
					li.blocks[b] = true
					stack = append(stack, b)
				}
				for len(stack) > 0 {
					n := stack[len(stack)-1]
					stack = stack[:len(stack)-1]
					for _, p := range n.Preds {
						if !li.blocks[p] {
							li.blocks[p] = true
							stack = append(stack, p)
						}
					}
				}
			}
		}
	}
}

// bindLoops associates SSA loops with source loop statements (ordinals in
// source order) and with loop contracts.
func (f *FuncVC) bindLoops() bool {
	if len(f.loops) == 0 {
		return true
	}
	syn := f.fn.Syntax()
	if syn == nil {
		f.unsup("no syntax for function with loops")
		return false
	}
	var stmts []ast.Node
	var body ast.Node = syn
	ast.Inspect(body, func(n ast.Node) bool {
		switch n := n.(type) {
		case *ast.FuncLit:
			if n != syn {
				return false
			}
		case *ast.ForStmt, *ast.RangeStmt:
			stmts = append(stmts, n)
		}
		return true
	})
	sort.Slice(stmts, func(i, j int) bool { return stmts[i].Pos() < stmts[j].Pos() })
	used := map[ast.Node]bool{}
	var heads []*ssa.BasicBlock
	for h := range f.loops {
		heads = append(heads, h)
	}
	sort.Slice(heads, func(i, j int) bool { return heads[i].Index < heads[j].Index })
	for _, h := range heads {
		li := f.loops[h]
		var lo, hi token.Pos
		for b := range li.blocks {
			for _, ins := range b.Instrs {
				if _, ok := ins.(*ssa.DebugRef); ok {
					continue
				}
				p := ins.Pos()
				if !p.IsValid() {
					continue
				}
				if lo == 0 || p < lo {
					lo = p
				}
				if p > hi {
					hi = p
				}
			}
		}
		var best ast.Node
		bestIdx := -1
		for i, s := range stmts {
			if lo >= s.Pos() && hi < s.End() {
				if best == nil || (s.End()-s.Pos()) < (best.End()-best.Pos()) {
					best, bestIdx = s, i
				}
			}
		}
		if best == nil || used[best] {
			f.unsup(fmt.Sprintf("cannot bind loop at block %d to a source loop", h.Index))
			return false
		}
		used[best] = true
		li.ordinal = bestIdx
		li.stmt = best
		if f.con != nil {
			li.con = f.con.Loops[bestIdx]
		}
	}
	if f.con != nil {
		for n := range f.con.Loops {
			found := false
			for _, li := range f.loops {
				if li.ordinal == n {
					found = true
				}
			}
			if !found {
				// the loop contract no longer binds; the function is still
				// verified against its pre/postconditions
				f.warnings = append(f.warnings, fmt.Sprintf("STALE-LOOP-CONTRACT func=%s loop=%d", f.name(), n))
			}
		}
	}
	return true
}

func (f *FuncVC) rpo() []*ssa.BasicBlock {
	seen := map[*ssa.BasicBlock]bool{}
	var post []*ssa.BasicBlock
	var dfs func(b *ssa.BasicBlock)
	dfs = func(b *ssa.BasicBlock) {
		seen[b] = true
		for _, s := range b.Succs {
			if f.backEdges[edge{b, s}] || seen[s] {
				continue
			}
			dfs(s)
		}
		post = append(post, b)
	}
	dfs(f.fn.Blocks[0])
	for i, j := 0, len(post)-1; i < j; i, j = i+1, j-1 {
		post[i], post[j] = post[j], post[i]
	}
	return post
}

// ---------------------------------------------------------------------------
// loops

type havocSet struct {
	cells    map[*ssa.Alloc]bool
	prefixes map[string]bool
	all      bool
}

func prefixCovers(prefix, name string) bool {
	return name == prefix || strings.HasPrefix(name, prefix+".")
}

// loopEffects computes what a loop may modify (cells, heap prefixes).
func (f *FuncVC) loopEffects(li *loopInfo) *havocSet {
	hs := &havocSet{cells: map[*ssa.Alloc]bool{}, prefixes: map[string]bool{}}
	var root func(v ssa.Value) (a *ssa.Alloc, prefix string, ok bool)
	root = func(v ssa.Value) (*ssa.Alloc, string, bool) {
		switch x := v.(type) {
		case *ssa.Alloc:
			if f.isLocal(x) {
				return x, "", true
			}
			et := x.Type().(*types.Pointer).Elem()
			if _, isS := et.Underlying().(*types.Struct); isS {
				return nil, structHeapPrefix(et), true
			}
			if at, isA := et.Underlying().(*types.Array); isA {
				return nil, elemHeapPrefix(at.Elem()), true
			}
			return nil, elemHeapPrefix(et), true
		case *ssa.FieldAddr:
			a, p, ok := root(x.X)
			if !ok {
				return nil, "", false
			}
			if a != nil {
				return a, "", true
			}
			if p != "" && !strings.HasPrefix(p, "?") {
				fld := x.X.Type().Underlying().(*types.Pointer).Elem().Underlying().(*types.Struct).Field(x.Field)
				return nil, p + "." + fld.Name(), true
			}
			return nil, p, true
		case *ssa.IndexAddr:
			switch bt := x.X.Type().Underlying().(type) {
			case *types.Slice:
				return nil, elemHeapPrefix(bt.Elem()), true
			case *types.Pointer:
				a, p, ok := root(x.X)
				if ok && a != nil {
					return a, "", true
				}
				if ok {
					return nil, p, true
				}
				return nil, elemHeapPrefix(bt.Elem().Underlying().(*types.Array).Elem()), true
			}
		case *ssa.Global:
			return nil, "", true
		default:
			// pointer value from elsewhere (parameter, load, call result)
			if pt, ok := v.Type().Underlying().(*types.Pointer); ok {
				if _, isS := pt.Elem().Underlying().(*types.Struct); isS {
					return nil, structHeapPrefix(pt.Elem()), true
				}
				if at, isA := pt.Elem().Underlying().(*types.Array); isA {
					return nil, elemHeapPrefix(at.Elem()), true
				}
				return nil, elemHeapPrefix(pt.Elem()), true
			}
		}
		return nil, "", false
	}
	for b := range li.blocks {
		for _, ins := range b.Instrs {
			switch x := ins.(type) {
			case *ssa.Store:
				a, p, ok := root(x.Addr)
				switch {
				case !ok:
					hs.all = true
				case a != nil:
					hs.cells[a] = true
				case p != "":
					hs.prefixes[p] = true
				}
			case *ssa.MapUpdate:
				hs.prefixes[mapHeapPrefix(x.Map.Type())] = true
			case *ssa.Call:
				f.callEffects(x, hs)
			case *ssa.MakeSlice:
				hs.prefixes[elemHeapPrefix(x.Type().Underlying().(*types.Slice).Elem())] = true
			case *ssa.Alloc:
				if !f.isLocal(x) {
					_, p, _ := root(x)
					hs.prefixes[p] = true
				}
			case *ssa.MakeInterface, *ssa.MakeMap, *ssa.MakeClosure:
				// allocate ids only
			case *ssa.Convert:
				if kindOf(x.X.Type()) == KStr && kindOf(x.Type()) == KSlice {
					hs.prefixes[elemHeapPrefix(x.Type().Underlying().(*types.Slice).Elem())] = true
				}
			case *ssa.Range, *ssa.Next:
				hs.prefixes["R:"] = true
			}
		}
	}
	return hs
}

func (f *FuncVC) loopHead(st *State, li *loopInfo) {
	f.curPos = li.stmt.Pos()
	if li.con == nil && f.con != nil && (f.con.Opts["only"] == "frame" || f.con.Opts["only"] == "panics") {
		// frame-only contract: loops need no invariant (cells not assigned in
		// the loop keep their values); termination is not claimed
		li.con = &LoopContract{Ordinal: li.ordinal, NoTermination: true}
	}
	if li.con == nil {
		if f.con != nil && f.con.Bounded > 0 {
			f.unsup("bounded mode not implemented for this loop")
		}
		f.unsup(fmt.Sprintf("loop %d has no invariant", li.ordinal))
	}
	li.entryOld = st.clone()
	ri, rlen := f.rangeIndexInfo(st, li)
	if li.con == nil && ri != nil {
		li.con = &LoopContract{Ordinal: li.ordinal} // range-over-slice loops get their index invariant for free
	}
	// 1. invariant holds on entry
	if li.con != nil {
		ev := f.invEval(st, li)
		for _, c := range li.con.Invariants {
			f.sc.add("; loop invariant (entry) " + c.Text)
			for _, cj := range ev.evalConj(c.Expr) {
				f.oblige(st, "inv.entry", fmt.Sprintf("loop%d:%s", li.ordinal, cj.Label), cj.Term)
			}
		}
	}
	// 2. havoc (the allocation watermark first: values produced by earlier
	// iterations may refer to objects allocated inside the loop)
	hs := f.loopEffects(li)
	f.bumpWM(st)
	for _, a := range f.sortedCells(st.cells) {
		if hs.cells[a] {
			st.cells[a] = f.freshTyped(st, a.Type().(*types.Pointer).Elem(), "lp."+a.Comment)
		}
	}
	names := map[string]string{}
	for n, s := range f.universe {
		names[n] = s
	}
	for n, s := range f.heapSorts {
		names[n] = s
	}
	for _, n := range sortedKeys(names) {
		if strings.HasPrefix(n, "X:") {
			continue
		}
		hit := hs.all
		for p := range hs.prefixes {
			if prefixCovers(p, n) || (p == "R:" && strings.HasPrefix(n, "R:")) {
				hit = true
			}
		}
		if !hit {
			continue
		}
		old := f.heap(st, n, names[n])
		fr := f.sc.fresh(n + "@lp")
		f.sc.declare(fr, names[n])
		f.heapSorts[n] = names[n]
		st.heaps[n] = fr
		f.frameAxiom(st, n, names[n], fr, old)
	}
	// new path condition constant so that facts about the loop head do not leak backwards
	// 3. assume invariant
	if ri != nil {
		// automatic invariant of a range-over-slice loop: -1 <= index, index+1 <= max(len,0)
		cur := st.cells[ri]
		if cur != nil {
			f.assume(st, and(cmp("<=", "(- 1)", cur.T), cmp("<=", arith("+", cur.T, "1"), "(imax "+rlen+" 0)")))
			li.autoDec = rlen
			li.autoRI = ri
			if li.con.Decreases == nil {
				li.d0 = f.sc.define("dec0", "Int", arith("-", rlen, cur.T))
			}
		}
	}
	if mref, mt := f.rangeMapInfo(li); mref != "" {
		if li.con == nil {
			li.con = &LoopContract{Ordinal: li.ordinal}
		}
		dom, ln, ksort, ok := f.mapHeaps(st, nil, mt)
		if ok && !hs.all && !hs.prefixes[mapHeapPrefix(mt)] {
			// the map is not modified by the loop: every key produced so far is in its domain
			seen := f.heap(st, "R:seen."+ksort, "(Array Int (Array "+ksort+" Bool))")
			q := f.sc.fresh("k")
			f.assume(st, "(forall (("+q+" "+ksort+")) (! (=> (select (select "+seen+" "+mref+") "+q+") (select (select "+dom+" "+mref+") "+q+")) :pattern ((select (select "+seen+" "+mref+") "+q+"))))")
		}
		if ok {
			cnt := f.heap(st, "R:cnt", "(Array Int Int)")
			f.assume(st, and(cmp("<=", "0", sel(cnt, mref)), cmp("<=", sel(cnt, mref), sel(ln, mref))))
			li.autoMap, li.autoMapT = mref, mt
			if li.con.Decreases == nil {
				li.d0 = f.sc.define("dec0", "Int", arith("-", sel(ln, mref), sel(cnt, mref)))
			}
		}
	}
	if sid := f.rangeStringInfo(li); sid != "" {
		if li.con == nil {
			li.con = &LoopContract{Ordinal: li.ordinal}
		}
		cnt := f.heap(st, "R:cnt", "(Array Int Int)")
		ln := f.heap(st, "R:slen", "(Array Int Int)")
		f.assume(st, and(cmp("<=", "0", sel(cnt, sid)), cmp("<=", sel(cnt, sid), sel(ln, sid))))
		li.autoStr = sid
		if li.con.Decreases == nil {
			li.d0 = f.sc.define("dec0", "Int", arith("-", sel(ln, sid), sel(cnt, sid)))
		}
	}
	if li.con != nil {
		ev := f.invEval(st, li)
		for _, c := range li.con.Invariants {
			f.sc.add("; loop invariant (assumed) " + c.Text)
			f.assume(st, ev.assuming().evalBool(c.Expr))
		}
		for _, c := range li.con.FreeInvariants {
			f.sc.add("; FREE loop invariant (assumed, unchecked) " + c.Text)
			f.assume(st, ev.assuming().evalBool(c.Expr))
			f.usedAssumed[fmt.Sprintf("UNCHECKED free invariant in %s loop %d: %s", f.name(), li.ordinal, c.Text)] = true
		}
		if li.con.Decreases != nil {
			d := ev.eval(li.con.Decreases.Expr)
			li.d0 = f.sc.define("dec0", "Int", d.T)
			if li.con.Decreases2 != nil {
				d2 := ev.eval(li.con.Decreases2.Expr)
				li.d02 = f.sc.define("dec02", "Int", d2.T)
			}
		}
	}
	li.headSt = st.clone()
}

// frameAxiom relates a havocked heap to its previous version: objects that
// existed at function entry and are outside the function's modifies clause
// are unchanged (each store is checked against that clause).
func (f *FuncVC) frameAxiom(st *State, name, sort, fresh, old string) {
	if f.con == nil || !f.con.HasMod {
		return
	}
	if !strings.HasPrefix(sort, "(Array Int ") {
		return
	}
	q := f.sc.fresh("o")
	guard := []string{cmp("<", q, f.wmEntry)}
	for _, m := range f.modTargets {
		switch m.kind {
		case "all":
			return
		case "fields":
			if strings.HasPrefix(name, m.heap+".") {
				guard = append(guard, not(eq(q, m.obj)))
			}
		case "field":
			if prefixCovers(m.heap+m.field, name) {
				guard = append(guard, not(eq(q, m.obj)))
			}
		case "elems", "ghost":
			if prefixCovers(m.heap, name) {
				guard = append(guard, not(eq(q, m.obj)))
			}
		case "heap":
			if prefixCovers(m.heap, name) {
				return
			}
		}
	}
	entry := f.heap(f.entry, name, sort)
	f.sc.assert(fmt.Sprintf("(forall ((%s Int)) (! (=> %s (= (select %s %s) (select %s %s))) :pattern ((select %s %s))))", q, and(guard...), fresh, q, entry, q, fresh, q))
	_ = old
}

func (f *FuncVC) backEdge(es *edgeState, li *loopInfo) {
	st := es.st.clone()
	st.pc = es.cond
	f.curPos = li.stmt.Pos()
	if li.con == nil {
		return
	}
	ev := f.invEval(st, li)
	for _, c := range li.con.Invariants {
		f.sc.add("; loop invariant (preserved) " + c.Text)
		for _, cj := range ev.evalConj(c.Expr) {
			f.oblige(st, "inv.preserve", fmt.Sprintf("loop%d:%s", li.ordinal, cj.Label), cj.Term)
		}
	}
	if li.con.NoTermination {
		f.noTerm = append(f.noTerm, fmt.Sprintf("%s loop %d", f.name(), li.ordinal))
	}
	if li.autoRI != nil {
		cur := st.cells[li.autoRI]
		f.oblige(st, "inv.preserve", fmt.Sprintf("loop%d:<range index in bounds>", li.ordinal), and(cmp("<=", "(- 1)", cur.T), cmp("<=", arith("+", cur.T, "1"), "(imax "+li.autoDec+" 0)")))
	}
	if li.con.Decreases != nil {
		d := ev.eval(li.con.Decreases.Expr)
		goal := and(cmp("<", d.T, li.d0), cmp(">=", li.d0, "0"))
		if li.con.Decreases2 != nil {
			d2 := ev.eval(li.con.Decreases2.Expr)
			goal = or(goal, and(eq(d.T, li.d0), cmp("<", d2.T, li.d02), cmp(">=", li.d02, "0")))
		}
		f.oblige(st, "decreases", fmt.Sprintf("loop%d:%s", li.ordinal, li.con.Decreases.Text), goal)
	} else if li.autoMap != "" {
		_, ln, _, _ := f.mapHeaps(st, nil, li.autoMapT)
		cnt := f.heap(st, "R:cnt", "(Array Int Int)")
		f.oblige(st, "decreases", fmt.Sprintf("loop%d:<map range>", li.ordinal), and(cmp("<", arith("-", sel(ln, li.autoMap), sel(cnt, li.autoMap)), li.d0), cmp(">=", li.d0, "0"), cmp("<=", sel(cnt, li.autoMap), sel(ln, li.autoMap))))
	} else if li.autoStr != "" {
		cnt := f.heap(st, "R:cnt", "(Array Int Int)")
		ln := f.heap(st, "R:slen", "(Array Int Int)")
		f.oblige(st, "decreases", fmt.Sprintf("loop%d:<string range>", li.ordinal), and(cmp("<", arith("-", sel(ln, li.autoStr), sel(cnt, li.autoStr)), li.d0), cmp(">=", li.d0, "0"), cmp("<=", sel(cnt, li.autoStr), sel(ln, li.autoStr))))
	} else if li.autoRI != nil {
		cur := st.cells[li.autoRI]
		f.oblige(st, "decreases", fmt.Sprintf("loop%d:<range index>", li.ordinal), and(cmp("<", arith("-", li.autoDec, cur.T), li.d0), cmp(">=", li.d0, "0")))
	} else if !li.con.NoTermination {
		f.oblige(st, "decreases", fmt.Sprintf("loop%d:<missing>", li.ordinal), "false")
	}
}

// rangeIndexInfo recognises the go/ssa shape of "for i := range slice":
// header block loads the hidden index cell, increments it and compares it
// with the length computed before the loop.
func (f *FuncVC) rangeIndexInfo(st *State, li *loopInfo) (*ssa.Alloc, string) {
	if !strings.HasPrefix(li.header.Comment, "rangeindex.loop") {
		return nil, ""
	}
	var ri *ssa.Alloc
	for _, ins := range li.header.Instrs {
		switch x := ins.(type) {
		case *ssa.UnOp:
			if a, ok := x.X.(*ssa.Alloc); ok && a.Comment == "rangeindex" && x.Op == token.MUL {
				ri = a
			}
		case *ssa.BinOp:
			if x.Op == token.LSS && ri != nil {
				if v, ok := f.regs[x.Y]; ok && v.K == KInt {
					if _, live := st.cells[ri]; live {
						return ri, v.T
					}
				}
				if c, ok := x.Y.(*ssa.Const); ok {
					return ri, f.val(st, c).T
				}
			}
		}
	}
	return nil, ""
}

// exitAsserts checks the loop contract's exit_assert clauses on an edge that leaves the loop.
func (f *FuncVC) exitAsserts(es *edgeState, li *loopInfo) {
	if li.con == nil || len(li.con.ExitAsserts) == 0 {
		return
	}
	st := es.st.clone()
	st.pc = es.cond
	ev := f.invEval(st, li)
	for _, c := range li.con.ExitAsserts {
		for _, cj := range ev.evalConj(c.Expr) {
			f.oblige(st, "assert", fmt.Sprintf("loop%d exit:%s", li.ordinal, cj.Label), cj.Term)
		}
	}
}

// rangeMapInfo recognises "for k, v := range m" over a map.
// rangeStringInfo returns the iterator id of a range-over-string loop.
func (f *FuncVC) rangeStringInfo(li *loopInfo) string {
	if !strings.HasPrefix(li.header.Comment, "rangeiter.loop") {
		return ""
	}
	for _, ins := range li.header.Instrs {
		if nx, ok := ins.(*ssa.Next); ok && nx.IsString {
			if rg, ok := nx.Iter.(*ssa.Range); ok {
				if v, ok := f.regs[rg]; ok && v.K == KInt && v.Why == "striter" {
					return v.T
				}
			}
		}
	}
	return ""
}

func (f *FuncVC) rangeMapInfo(li *loopInfo) (string, *types.Map) {
	if !strings.HasPrefix(li.header.Comment, "rangeiter.loop") {
		return "", nil
	}
	for _, ins := range li.header.Instrs {
		if nx, ok := ins.(*ssa.Next); ok && !nx.IsString {
			if rg, ok := nx.Iter.(*ssa.Range); ok {
				if v, ok := f.regs[rg]; ok && v.K == KMap {
					if mt, ok := rg.X.Type().Underlying().(*types.Map); ok {
						return v.T, mt
					}
				}
			}
		}
	}
	return "", nil
}
