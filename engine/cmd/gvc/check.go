package main

import (
	"encoding/json"
	"flag"
	"fmt"
	"os"
	"path/filepath"
	"regexp"
	"sort"
	"strconv"
	"strings"
	"sync"
	"time"
)

type KnownFinding struct {
	Property   string `json:"property"`
	Status     string `json:"status"` // "open" or "fixed"
	Obligation string `json:"obligation"`
	// Variants: the finding also covers the numbered duplicates of the
	// obligation (name~2, name~3, ...): the same statement at several places
	// of one function (e.g. one panic("not implemented") per unsupported case)
	Variants bool `json:"variants,omitempty"`
	What       string `json:"what"`
	Witness    string `json:"witness,omitempty"`
	Commit     string `json:"commit,omitempty"`
}

func (k KnownFinding) matches(name string) bool {
	if k.Obligation == name {
		return true
	}
	if k.Variants && strings.HasPrefix(name, k.Obligation+"~") {
		rest := name[len(k.Obligation)+1:]
		for _, c := range rest {
			if c < '0' || c > '9' {
				return false
			}
		}
		return rest != ""
	}
	return false
}

func loadKnownFindings() []KnownFinding {
	data, err := os.ReadFile(filepath.Join(verifDir, "known_findings.json"))
	if err != nil {
		return nil
	}
	var kf struct {
		Findings []KnownFinding `json:"findings"`
	}
	if json.Unmarshal(data, &kf) != nil {
		return nil
	}
	return kf.Findings
}

type propResult struct {
	prop        string
	fvs         []*FuncVC
	obls        []*Obligation
	violations  []*Obligation
	known       []string
	undecided   []string
	stale       []string
	wall        float64
	solverSecs  float64
	byBackend   map[string]int
	nGuards     int
	guardsFail  []*Obligation
	unreach     []string
}

var fileSafe = regexp.MustCompile(`[^A-Za-z0-9_.-]+`)

func cmdCheck(args []string) {
	fs := flag.NewFlagSet("check", flag.ExitOnError)
	prop := fs.String("prop", "", "property id")
	tier := fs.String("tier", "quick", "quick or thorough")
	repo := fs.String("repo", "/repo", "repository")
	noEv := fs.Bool("no-evidence", false, "do not write evidence/replay files under /verif (scratch runs)")
	fs.Parse(args)
	if *noEv {
		scratchOut = true
	}
	if *prop == "" {
		usage()
	}
	if t := os.Getenv("VERIF_TIER"); t != "" && *tier == "" {
		*tier = t
	}
	seed, _ := strconv.Atoi(os.Getenv("VERIF_SEED"))
	code := runCheck(*prop, *tier, *repo, seed, nil, true)
	os.Exit(code)
}

// runCheck verifies every function whose contract lists the property.
func runCheck(prop, tier, repo string, seed int, overlay map[string][]byte, report bool) int {
	t0 := time.Now()
	eng, err := loadEngine(repo, verifDir+"/assumed", overlay)
	if err != nil {
		fmt.Fprintln(os.Stderr, "gvc: cannot load repository:", err)
		if report {
			// the tree does not compile / load: undecided, not a violation
			writeEvidence(&propResult{prop: prop, undecided: []string{"repository does not load: " + err.Error()}}, tier, seed, eng)
		}
		return 2
	}
	res := &propResult{prop: prop, byBackend: map[string]int{}}
	for _, u := range eng.unbound {
		res.stale = append(res.stale, u)
		fmt.Println("STALE-CONTRACT", u)
	}
	var cons []*Contract
	for _, c := range eng.cs.Contracts {
		if c.Assumed {
			continue
		}
		for _, p := range c.Props {
			if p == prop {
				cons = append(cons, c)
				break
			}
		}
	}
	if len(cons) == 0 {
		fmt.Fprintf(os.Stderr, "gvc: no function under contract for %s\n", prop)
		return 2
	}
	// generate (parallel per function)
	fvs := make([]*FuncVC, len(cons))
	var wg sync.WaitGroup
	sem := make(chan bool, 8)
	for i, c := range cons {
		wg.Add(1)
		go func(i int, c *Contract) {
			defer wg.Done()
			sem <- true
			defer func() { <-sem }()
			defer func() {
				if r := recover(); r != nil {
					f := newFuncVC(eng, eng.ssaFunc(c), c, nil)
					f.unsup(fmt.Sprintf("engine panic: %v", r))
					fvs[i] = f
				}
			}()
			fvs[i] = verifyFunc(eng, c)
		}(i, c)
	}
	wg.Wait()
	for i, f := range fvs {
		if f == nil {
			res.stale = append(res.stale, "func="+cons[i].Key()+" reason=no SSA function")
			continue
		}
		res.fvs = append(res.fvs, f)
		for _, w := range f.warnings {
			fmt.Println(w)
			res.stale = append(res.stale, w)
		}
		if len(f.unsupported) > 0 {
			// cannot generate the VCs of this function: undecided, never a silent pass
			res.undecided = append(res.undecided, fmt.Sprintf("func=%s reason=%s", f.name(), strings.Join(uniq(f.unsupported), "; ")))
			continue
		}
		res.obls = append(res.obls, f.obls...)
	}
	cfg := &SolveConfig{Timeout: 60 * time.Second, Dir: scratchDir(), CacheDir: filepath.Join(verifDir, ".cache"), Workers: 16}
	if tier == "thorough" {
		cfg.Timeout = 120 * time.Second
		cfg.Double = true
	}
	defer os.RemoveAll(cfg.Dir)
	known := loadKnownFindings()
	for _, o := range res.obls {
		for _, k := range known {
			if k.Status == "open" && k.matches(o.Name) {
				o.Budget = 4 * time.Second // known to fail: do not spend the full timeout on it
			}
		}
	}
	solveAll(res.obls, cfg)

	exit := 0
	printedKnown := map[int]bool{}
	for _, o := range res.obls {
		res.solverSecs += o.Secs
		if o.Expect == "sat" {
			res.nGuards++
			if o.Status != "discharged" {
				if o.Kind == "cover" {
					// an unreachable return may be legitimate dead code: reported, not an alarm
					res.unreach = append(res.unreach, o.Name)
				} else {
					res.guardsFail = append(res.guardsFail, o)
				}
			}
			continue
		}
		if o.Status == "discharged" {
			res.byBackend[strings.TrimSuffix(o.Solver, " (cached)")]++
			continue
		}
		isKnown := false
		for ki, k := range known {
			if k.Status == "open" && k.matches(o.Name) {
				if !printedKnown[ki] {
					fmt.Printf("KNOWN-FINDING: property=%s %s [%s]\n", prop, k.What, o.Name)
					printedKnown[ki] = true
				}
				res.known = append(res.known, o.Name)
				isKnown = true
				break
			}
		}
		if isKnown {
			continue
		}
		res.violations = append(res.violations, o)
	}
	// vacuity failures are violations of the machinery's own soundness guard
	for _, o := range res.guardsFail {
		res.violations = append(res.violations, o)
	}
	for i, o := range res.violations {
		if i < 8 && os.Getenv("GVC_NO_REPLAY") == "" {
			replayObligation(o, eng, repo)
		}
		path := writeReplay(prop, o, eng)
		suffix := ""
		if !o.replayed {
			suffix = " no-failing-input-found"
		}
		fmt.Printf("VIOLATION property=%s replay=%s obligation=%q status=%s%s\n", prop, path, o.Name, o.Status, suffix)
		exit = 1
	}
	for _, u := range res.undecided {
		fmt.Println("UNDECIDED", u)
	}
	for _, u := range res.unreach {
		fmt.Println("NOTE unreachable return (dead code or over-strong assumptions):", u)
	}
	res.wall = time.Since(t0).Seconds()
	if report {
		writeEvidence(res, tier, seed, eng)
	}
	nOb := 0
	nDis := 0
	for _, o := range res.obls {
		if o.Expect == "unsat" {
			nOb++
			if o.Status == "discharged" {
				nDis++
			}
		}
	}
	fmt.Printf("%s %s: %d functions under contract, %d obligations, %d discharged, %d violations, %d known findings, %d undecided functions, %.1fs\n",
		prop, tier, len(res.fvs), nOb, nDis, len(res.violations), len(res.known), len(res.undecided), res.wall)
	return exit
}

// trimMiddle keeps the head and the tail of a long text.
func trimMiddle(s string, max int) string {
	if len(s) <= max {
		return s
	}
	return s[:max/2] + "\n... [" + fmt.Sprint(len(s)-max) + " bytes omitted] ...\n" + s[len(s)-max/2:]
}

var scratchOut bool

func writeReplay(prop string, o *Obligation, eng *Engine) string {
	dir := filepath.Join(verifDir, "replay", prop)
	if scratchOut {
		dir = filepath.Join(os.TempDir(), "gvc-scratch-replay", prop)
	}
	os.MkdirAll(dir, 0o755)
	name := fileSafe.ReplaceAllString(o.Name, "_")
	if len(name) > 120 {
		name = name[:120]
	}
	path := filepath.Join(dir, name+".json")
	rep := map[string]interface{}{
		"property":   prop,
		"obligation": o.Name,
		"kind":       o.Kind,
		"function":   o.Func,
		"position":   o.Pos.String(),
		"status":     o.Status,
		"solver":     o.Solver,
		"solver_output": o.Raw,
		"model":      o.Model,
		"replayed":   o.replayed,
		"replay_log": trimMiddle(o.replayLog, 40000),
		"replay_test": o.replayTest,
	}
	if !o.replayed {
		rep["note"] = "no-failing-input-found: the obligation is not discharged on this tree; the verifier gave no model that reproduces on the real code"
	}
	data, _ := json.MarshalIndent(rep, "", " ")
	os.WriteFile(path, data, 0o644)
	return path
}

func writeEvidence(res *propResult, tier string, seed int, eng *Engine) {
	if scratchOut {
		return
	}
	os.MkdirAll(filepath.Join(verifDir, "evidence"), 0o755)
	nOb, nDis := 0, 0
	var samples []interface{}
	var slow []*Obligation
	knownSet := map[string]bool{}
	for _, n := range res.known {
		knownSet[n] = true
	}
	for _, o := range res.obls {
		if o.Expect != "unsat" || knownSet[o.Name] {
			continue // obligations of open known findings are reported separately
		}
		nOb++
		if o.Status == "discharged" {
			nDis++
		}
		slow = append(slow, o)
	}
	sort.Slice(slow, func(i, j int) bool { return slow[i].Secs > slow[j].Secs })
	for i, o := range slow {
		if i >= 8 {
			break
		}
		samples = append(samples, map[string]interface{}{"obligation": o.Name, "kind": o.Kind, "status": o.Status, "solver": o.Solver, "secs": round3(o.Secs), "query_bytes": o.QBytes})
	}
	var funcs []string
	assumed := map[string]bool{}
	havoc := map[string]bool{}
	for _, f := range res.fvs {
		n := 0
		for _, o := range f.obls {
			if o.Expect == "unsat" {
				n++
			}
		}
		funcs = append(funcs, fmt.Sprintf("%s (%d obligations)", f.name(), n))
		for k := range f.usedAssumed {
			assumed[k] = true
		}
		for k := range f.havocCallee {
			havoc[k] = true
		}
		for _, k := range uniq(f.noTerm) {
			assumed["termination NOT claimed for "+k] = true
		}
	}
	trusted := []string{
		"A-ARCH: int/uint/uintptr are 64-bit",
		"A-GO: golang.org/x/tools go/ssa (naive form) is a faithful translation of the Go source",
		"A-SMT: solver soundness (z3 5.1.0, z3 4.8.12, cvc5 1.0; thorough tier requires two solvers to agree)",
		"A-MEM: no out-of-memory / stack exhaustion",
		"A-SENTINEL: package-level variables (error sentinels, tables) are never reassigned",
		"A-OWN: an object's representation is not changed behind its back between calls",
		"integers are exact machine integers (wrap-around modelled); floats are uninterpreted",
	}
	for _, k := range sortedKeys(assumed) {
		trusted = append(trusted, "assumed contract: "+k)
	}
	for _, k := range sortedKeys(havoc) {
		trusted = append(trusted, "callee without contract treated as havoc (sound): "+k)
	}
	var viol []string
	for _, o := range res.violations {
		viol = append(viol, o.Name)
	}
	cov := map[string]interface{}{
		"obligations":              nOb,
		"discharged":               nDis,
		"checker_cmd":              "z3-new -smt2 -T:<t> q.smt2 | /usr/bin/z3 -smt2 -T:<t> q.smt2 | cvc5 --lang=smt2 --tlimit=<ms> q.smt2 (raced per obligation; queries generated by /verif/bin/gvc from /repo's go/ssa)",
		"trusted_base":             trusted,
		"functions_under_contract": funcs,
		"by_backend":               res.byBackend,
		"solver_s":                 round3(res.solverSecs),
		"samples":                  samples,
		"vacuity_and_cover_checks": res.nGuards,
		"vacuity_failures":         len(res.guardsFail),
		"unreachable_returns":      res.unreach,
		"known_findings_open":      res.known,
		"stale_contracts":          res.stale,
		"undecided_functions":      res.undecided,
		"failed_obligations":       viol,
		"bounded":                  []string{},
	}
	ev := map[string]interface{}{
		"property_id": res.prop,
		"tier":        tier,
		"seed":        seed,
		"level":       "proof",
		"coverage":    cov,
		"assumptions": trusted,
		"wall_s":      round3(res.wall),
		"violations":  len(res.violations),
	}
	data, _ := json.MarshalIndent(ev, "", " ")
	os.WriteFile(filepath.Join(verifDir, "evidence", res.prop+".json"), data, 0o644)
}

func round3(x float64) float64 { return float64(int(x*1000+0.5)) / 1000 }
