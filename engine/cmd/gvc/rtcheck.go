package main

// Rendering of contract clauses as Go code that is evaluated against the REAL
// function during replay: the requires clauses decide whether a model input is
// a legal input, the ensures clauses decide whether the real run violates the
// contract.  Only a subset of the contract language is translated; a clause
// outside it is skipped (and reported as such in the replay log).

import (
	"fmt"
	"go/ast"
	"go/token"
	"go/types"
	"sort"
	"strings"
)

type rtGen struct {
	f       *FuncVC
	pkg     *types.Package
	imports map[string]string // path -> local name
	specs   map[string]string // spec name -> Go source of its function
	specTodo []string
	params  map[string]bool
	bound   map[string]bool
	boundTy map[string]string
	oldMode bool
	lets    map[string]ast.Expr
	depth   int
}

type rtErr struct{ msg string }

func (g *rtGen) bail(format string, args ...interface{}) {
	panic(rtErr{fmt.Sprintf(format, args...)})
}

func newRtGen(f *FuncVC) *rtGen {
	g := &rtGen{f: f, pkg: f.fn.Pkg.Pkg, imports: map[string]string{}, specs: map[string]string{}, params: map[string]bool{}, bound: map[string]bool{}, lets: map[string]ast.Expr{}}
	if f.con != nil {
		for _, p := range f.con.Params {
			g.params[p] = true
		}
		for _, l := range f.con.Lets {
			g.lets[l.Name] = l.Expr
		}
	}
	return g
}

func (g *rtGen) qual(p *types.Package) string {
	if p == g.pkg {
		return ""
	}
	g.imports[p.Path()] = p.Name()
	return p.Name()
}

func (g *rtGen) typeStr(t types.Type) string {
	return types.TypeString(t, g.qual)
}

// clause renders one boolean clause; ok=false when it is outside the subset.
func (g *rtGen) clause(e ast.Expr) (src string, why string) {
	defer func() {
		if r := recover(); r != nil {
			if re, ok := r.(rtErr); ok {
				src, why = "", re.msg
				return
			}
			panic(r)
		}
	}()
	return g.expr(e), ""
}

func rtIsInt(t types.Type) bool {
	if t == nil {
		return false
	}
	b, ok := t.Underlying().(*types.Basic)
	return ok && b.Info()&types.IsInteger != 0
}

func info(e ast.Expr) (nodeInfo, bool) {
	v, ok := nodeTypes.Load(e)
	if !ok {
		return nodeInfo{}, false
	}
	return v.(nodeInfo), true
}


// intOp renders e as an operand of integer arithmetic: contract integers are
// mathematical, so every typed integer is widened to int.
func (g *rtGen) intOp(e ast.Expr) string {
	s := g.expr(e)
	e = unparen(e)
	if id, ok := e.(*ast.Ident); ok && g.bound[id.Name] {
		if ty := g.boundTy[id.Name]; ty != "" && ty != "int" {
			return "int(" + s + ")"
		}
		return s
	}
	ni, ok := info(e)
	if !ok {
		return s
	}
	if ni.K == KInt && ni.Ty != nil && rtIsInt(ni.Ty) {
		if b, ok := ni.Ty.(*types.Basic); ok && b.Kind() == types.Int {
			return s
		}
		if b, ok := ni.Ty.(*types.Basic); ok && b.Info()&types.IsUntyped != 0 {
			return s
		}
		return "int(" + s + ")"
	}
	return s
}

func unparen(e ast.Expr) ast.Expr {
	for {
		p, ok := e.(*ast.ParenExpr)
		if !ok {
			return e
		}
		e = p.X
	}
}

func (g *rtGen) isInt(e ast.Expr) bool {
	ni, ok := info(unparen(e))
	return ok && ni.K == KInt
}

func (g *rtGen) expr(e ast.Expr) string {
	g.depth++
	defer func() { g.depth-- }()
	if g.depth > 60 {
		g.bail("expression too deep")
	}
	switch x := e.(type) {
	case *ast.ParenExpr:
		return "(" + g.expr(x.X) + ")"
	case *ast.BasicLit:
		return x.Value
	case *ast.Ident:
		return g.ident(x)
	case *ast.UnaryExpr:
		switch x.Op {
		case token.NOT:
			return "!(" + g.expr(x.X) + ")"
		case token.SUB:
			return "-(" + g.intOp(x.X) + ")"
		case token.ADD:
			return g.intOp(x.X)
		case token.AND:
			return "&" + g.expr(x.X)
		}
		g.bail("unary %s", x.Op)
	case *ast.BinaryExpr:
		switch x.Op {
		case token.LAND, token.LOR:
			return "(" + g.expr(x.X) + " " + x.Op.String() + " " + g.expr(x.Y) + ")"
		case token.ADD, token.SUB, token.MUL, token.QUO, token.REM, token.LSS, token.LEQ, token.GTR, token.GEQ, token.SHL, token.SHR, token.AND, token.OR, token.XOR:
			if ni, ok := info(unparen(x.X)); ok && ni.K != KInt {
				g.bail("operator %s on non-integer operands", x.Op)
			}
			return "(" + g.intOp(x.X) + " " + x.Op.String() + " " + g.intOp(x.Y) + ")"
		case token.EQL, token.NEQ:
			if g.isInt(x.X) || g.isInt(x.Y) {
				return "(" + g.intOp(x.X) + " " + x.Op.String() + " " + g.intOp(x.Y) + ")"
			}
			nx, okx := info(unparen(x.X))
			ny, oky := info(unparen(x.Y))
			if okx && oky && (nx.K == KSlice || ny.K == KSlice || nx.K == KStruct || ny.K == KStruct || nx.K == KArr || ny.K == KArr) {
				if isNilIdent(x.X) || isNilIdent(x.Y) {
					return "(" + g.expr(x.X) + " " + x.Op.String() + " " + g.expr(x.Y) + ")"
				}
				s := "gvcDeepEqual(" + g.expr(x.X) + ", " + g.expr(x.Y) + ")"
				if x.Op == token.NEQ {
					s = "!" + s
				}
				return s
			}
			return "(" + g.expr(x.X) + " " + x.Op.String() + " " + g.expr(x.Y) + ")"
		}
		g.bail("binary %s", x.Op)
	case *ast.SelectorExpr:
		if id, ok := x.X.(*ast.Ident); ok && !g.isValue(id.Name) {
			// package-qualified name
			for _, imp := range g.pkg.Imports() {
				if imp.Name() == id.Name {
					g.imports[imp.Path()] = imp.Name()
					return id.Name + "." + x.Sel.Name
				}
			}
			for _, name := range []string{"io", "errors", "math"} {
				if id.Name == name {
					g.imports[name] = name
					return id.Name + "." + x.Sel.Name
				}
			}
			g.bail("unknown package %s", id.Name)
		}
		return g.expr(x.X) + "." + x.Sel.Name
	case *ast.IndexExpr:
		base := g.expr(x.X)
		if ni, ok := info(unparen(x.X)); ok {
			switch ni.K {
			case KSeq:
				g.bail("ghost sequence")
			case KMap:
				if mt, ok := ni.Ty.Underlying().(*types.Map); ok {
					if rtIsInt(mt.Key()) {
						return base + "[" + g.typeStr(mt.Key()) + "(" + g.intOp(x.Index) + ")]"
					}
					return base + "[" + g.expr(x.Index) + "]"
				}
			}
		}
		return base + "[" + g.intOp(x.Index) + "]"
	case *ast.SliceExpr:
		s := g.expr(x.X) + "["
		if x.Low != nil {
			s += g.intOp(x.Low)
		}
		s += ":"
		if x.High != nil {
			s += g.intOp(x.High)
		}
		if x.Max != nil {
			s += ":" + g.intOp(x.Max)
		}
		return s + "]"
	case *ast.StarExpr:
		return "*" + g.expr(x.X)
	case *ast.TypeAssertExpr:
		return g.expr(x.X) + ".(" + g.typeExpr(x.Type) + ")"
	case *ast.CompositeLit:
		var parts []string
		for _, el := range x.Elts {
			if kv, ok := el.(*ast.KeyValueExpr); ok {
				parts = append(parts, exprString(kv.Key)+": "+g.expr(kv.Value))
			} else {
				parts = append(parts, g.expr(el))
			}
		}
		return g.typeExpr(x.Type) + "{" + strings.Join(parts, ", ") + "}"
	case *ast.CallExpr:
		return g.call(x)
	}
	g.bail("unsupported expression %s", exprString(e))
	return ""
}

func isNilIdent(e ast.Expr) bool {
	id, ok := unparen(e).(*ast.Ident)
	return ok && id.Name == "nil"
}

func (g *rtGen) typeExpr(e ast.Expr) string {
	// type names of the contract language are Go type expressions of the package
	switch x := e.(type) {
	case *ast.SelectorExpr:
		if id, ok := x.X.(*ast.Ident); ok {
			for _, imp := range g.pkg.Imports() {
				if imp.Name() == id.Name {
					g.imports[imp.Path()] = imp.Name()
				}
			}
		}
	case *ast.StarExpr:
		return "*" + g.typeExpr(x.X)
	case *ast.ArrayType:
		if x.Len == nil {
			return "[]" + g.typeExpr(x.Elt)
		}
	}
	return exprString(e)
}

func (g *rtGen) isValue(name string) bool {
	if g.bound[name] || g.params[name] {
		return true
	}
	if g.f.con != nil {
		for _, r := range g.f.con.Results {
			if r == name {
				return true
			}
		}
	}
	if _, ok := g.lets[name]; ok {
		return true
	}
	if obj := g.pkg.Scope().Lookup(name); obj != nil {
		if _, isPkg := obj.(*types.PkgName); !isPkg {
			return true
		}
	}
	return false
}

func (g *rtGen) ident(x *ast.Ident) string {
	switch x.Name {
	case "true", "false", "nil":
		return x.Name
	case "iter", "rangeindex":
		g.bail("loop variable %s", x.Name)
	}
	if g.bound[x.Name] {
		return x.Name
	}
	if g.params[x.Name] {
		if g.oldMode {
			return "gvcPre_" + x.Name
		}
		return x.Name
	}
	if g.f.con != nil {
		for _, r := range g.f.con.Results {
			if r == x.Name {
				if g.oldMode {
					g.bail("result in old()")
				}
				return x.Name
			}
		}
	}
	if le, ok := g.lets[x.Name]; ok {
		return "(" + g.expr(le) + ")"
	}
	if obj := g.pkg.Scope().Lookup(x.Name); obj != nil {
		return x.Name
	}
	if obj := types.Universe.Lookup(x.Name); obj != nil {
		return x.Name
	}
	g.bail("unknown identifier %s", x.Name)
	return ""
}

func flattenAnd(e ast.Expr, out []ast.Expr) []ast.Expr {
	e = unparen(e)
	if b, ok := e.(*ast.BinaryExpr); ok && b.Op == token.LAND {
		out = flattenAnd(b.X, out)
		return flattenAnd(b.Y, out)
	}
	return append(out, e)
}

// bounds finds lo <= v and v < hi among the conjuncts.
func (g *rtGen) bounds(v string, conj []ast.Expr) (lo, hi string) {
	isV := func(e ast.Expr) bool {
		id, ok := unparen(e).(*ast.Ident)
		return ok && id.Name == v
	}
	mentions := func(e ast.Expr) bool {
		found := false
		ast.Inspect(e, func(n ast.Node) bool {
			if id, ok := n.(*ast.Ident); ok && g.bound[id.Name] && id.Name != v {
				// bounds may depend on outer bound variables only
			}
			if id, ok := n.(*ast.Ident); ok && id.Name == v {
				found = true
			}
			return true
		})
		return found
	}
	for _, c := range conj {
		b, ok := c.(*ast.BinaryExpr)
		if !ok {
			continue
		}
		switch {
		case isV(b.Y) && !mentions(b.X) && (b.Op == token.LEQ || b.Op == token.LSS) && lo == "":
			lo = g.intOp(b.X)
			if b.Op == token.LSS {
				lo = "(" + lo + ")+1"
			}
		case isV(b.X) && !mentions(b.Y) && (b.Op == token.GEQ || b.Op == token.GTR) && lo == "":
			lo = g.intOp(b.Y)
			if b.Op == token.GTR {
				lo = "(" + lo + ")+1"
			}
		case isV(b.X) && !mentions(b.Y) && (b.Op == token.LSS || b.Op == token.LEQ) && hi == "":
			hi = g.intOp(b.Y)
			if b.Op == token.LEQ {
				hi = "(" + hi + ")+1"
			}
		case isV(b.Y) && !mentions(b.X) && (b.Op == token.GTR || b.Op == token.GEQ) && hi == "":
			hi = g.intOp(b.X)
			if b.Op == token.GEQ {
				hi = "(" + hi + ")+1"
			}
		}
	}
	return
}

func (g *rtGen) quant(kind string, fl *ast.FuncLit) string {
	if len(fl.Body.List) != 1 {
		g.bail("quantifier body")
	}
	ret, ok := fl.Body.List[0].(*ast.ReturnStmt)
	if !ok || len(ret.Results) != 1 {
		g.bail("quantifier body")
	}
	body := unparen(ret.Results[0])
	var names []string
	var tys []string
	for _, p := range fl.Type.Params.List {
		ts := exprString(p.Type)
		for _, n := range p.Names {
			names = append(names, n.Name)
			tys = append(tys, ts)
		}
	}
	var conj []ast.Expr
	if kind == "forall" {
		c, ok := body.(*ast.CallExpr)
		if !ok || !isFun(c, "implies") {
			g.bail("forall without a range")
		}
		conj = flattenAnd(c.Args[0], nil)
	} else {
		conj = flattenAnd(body, nil)
	}
	saved := map[string]bool{}
	for _, n := range names {
		saved[n] = g.bound[n]
	}
	defer func() {
		for _, n := range names {
			g.bound[n] = saved[n]
		}
	}()
	var sb strings.Builder
	sb.WriteString("func() bool {\n")
	closers := 0
	for i, n := range names {
		switch tys[i] {
		case "int", "int64", "int32", "int16", "uint16", "uint32", "uint8", "byte", "rune", "uint64", "uint":
		default:
			if t := g.namedIntType(tys[i]); t == "" {
				g.bail("quantifier over %s", tys[i])
			}
		}
		// the bounds of a variable may mention the variables bound before it
		lo, hi := g.bounds(n, conj)
		if lo == "" && hi == "" {
			// small types are enumerated completely
			switch g.smallType(tys[i]) {
			case 8:
				lo, hi = "0", "256"
			case 16:
				lo, hi = "0", "65536"
			}
		}
		if lo == "" || hi == "" {
			g.bail("no range for bound variable %s", n)
		}
		g.bound[n] = true
		if g.boundTy == nil {
			g.boundTy = map[string]string{}
		}
		g.boundTy[n] = tys[i]
		fmt.Fprintf(&sb, "gvcRange(%s, %s)\nfor gvcv_%s := %s; gvcv_%s < %s; gvcv_%s++ {\n%s := %s(gvcv_%s); _ = %s\n", lo, hi, n, lo, n, hi, n, n, tys[i], n, n)
		closers++
	}
	b := g.expr(body)
	if kind == "forall" {
		fmt.Fprintf(&sb, "if !(%s) { return false }\n", b)
	} else {
		fmt.Fprintf(&sb, "if %s { return true }\n", b)
	}
	for i := 0; i < closers; i++ {
		sb.WriteString("}\n")
	}
	if kind == "forall" {
		sb.WriteString("return true\n}()")
	} else {
		sb.WriteString("return false\n}()")
	}
	return sb.String()
}

// smallType returns 8 or 16 for unsigned types of that width (0 otherwise).
func (g *rtGen) smallType(name string) int {
	var t types.Type
	if obj := types.Universe.Lookup(name); obj != nil {
		t = obj.Type()
	} else if strings.Contains(name, ".") {
		parts := strings.SplitN(name, ".", 2)
		for _, imp := range g.pkg.Imports() {
			if imp.Name() == parts[0] {
				if obj := imp.Scope().Lookup(parts[1]); obj != nil {
					g.imports[imp.Path()] = imp.Name()
					t = obj.Type()
				}
			}
		}
	} else if obj := g.pkg.Scope().Lookup(name); obj != nil {
		t = obj.Type()
	}
	if t == nil {
		return 0
	}
	if b, ok := t.Underlying().(*types.Basic); ok {
		switch b.Kind() {
		case types.Uint8:
			return 8
		case types.Uint16:
			return 16
		}
	}
	return 0
}

func (g *rtGen) namedIntType(name string) string {
	if strings.Contains(name, ".") {
		parts := strings.SplitN(name, ".", 2)
		for _, imp := range g.pkg.Imports() {
			if imp.Name() == parts[0] {
				if obj := imp.Scope().Lookup(parts[1]); obj != nil && rtIsInt(obj.Type()) {
					g.imports[imp.Path()] = imp.Name()
					return name
				}
			}
		}
		return ""
	}
	if obj := g.pkg.Scope().Lookup(name); obj != nil && rtIsInt(obj.Type()) {
		return name
	}
	return ""
}

func isFun(c *ast.CallExpr, name string) bool {
	id, ok := c.Fun.(*ast.Ident)
	return ok && id.Name == name
}

func (g *rtGen) call(x *ast.CallExpr) string {
	if id, ok := x.Fun.(*ast.Ident); ok {
		switch id.Name {
		case "implies":
			return "(!(" + g.expr(x.Args[0]) + ") || (" + g.expr(x.Args[1]) + "))"
		case "forall", "exists":
			fl, ok := x.Args[0].(*ast.FuncLit)
			if !ok {
				g.bail("quantifier")
			}
			return g.quant(id.Name, fl)
		case "old":
			if g.oldMode {
				return g.expr(x.Args[0])
			}
			g.oldMode = true
			defer func() { g.oldMode = false }()
			for b := range g.bound {
				_ = b
			}
			return g.expr(x.Args[0])
		case "pre":
			if pid, ok := x.Args[0].(*ast.Ident); ok && g.params[pid.Name] {
				return pid.Name
			}
			g.bail("pre()")
		case "ite":
			ty := "int"
			if ni, ok := info(x); ok {
				switch {
				case ni.K == KBool:
					ty = "bool"
				case ni.K == KInt:
					ty = "int"
				default:
					g.bail("ite of kind %v", ni.K)
				}
			}
			a, b := g.expr(x.Args[1]), g.expr(x.Args[2])
			if ty == "int" {
				a, b = g.intOp(x.Args[1]), g.intOp(x.Args[2])
			}
			return fmt.Sprintf("func() %s { if %s { return %s }; return %s }()", ty, g.expr(x.Args[0]), a, b)
		case "len", "cap":
			if ni, ok := info(unparen(x.Args[0])); ok && ni.K == KSeq {
				g.bail("ghost sequence")
			}
			return id.Name + "(" + g.expr(x.Args[0]) + ")"
		case "min", "max":
			var as []string
			for _, a := range x.Args {
				as = append(as, g.intOp(a))
			}
			return id.Name + "(" + strings.Join(as, ", ") + ")"
		case "abs":
			return "gvcAbs(" + g.intOp(x.Args[0]) + ")"
		case "pow2":
			return "(1 << uint(" + g.intOp(x.Args[0]) + "))"
		case "be16":
			return "gvcBe16(" + g.expr(x.Args[0]) + ", " + g.intOp(x.Args[1]) + ")"
		case "be32":
			return "gvcBe32(" + g.expr(x.Args[0]) + ", " + g.intOp(x.Args[1]) + ")"
		case "has":
			m := g.expr(x.Args[0])
			key := g.expr(x.Args[1])
			if ni, ok := info(unparen(x.Args[0])); ok && ni.Ty != nil {
				if mt, ok := ni.Ty.Underlying().(*types.Map); ok && rtIsInt(mt.Key()) {
					key = g.typeStr(mt.Key()) + "(" + g.intOp(x.Args[1]) + ")"
				}
			}
			return "func() bool { _, gvcok := " + m + "[" + key + "]; return gvcok }()"
		case "is":
			return "func() bool { _, gvcok := any(" + g.expr(x.Args[0]) + ").(" + g.typeExpr(x.Args[1]) + "); return gvcok }()"
		case "isnil":
			return "(" + g.expr(x.Args[0]) + " == nil)"
		case "fresh", "ref", "off", "seen", "nseen":
			g.bail("%s() has no run-time meaning", id.Name)
		}
		// conversion to a basic or package type
		if obj := types.Universe.Lookup(id.Name); obj != nil {
			if _, ok := obj.(*types.TypeName); ok && len(x.Args) == 1 {
				if g.isInt(x.Args[0]) {
					return id.Name + "(" + g.intOp(x.Args[0]) + ")"
				}
				return id.Name + "(" + g.expr(x.Args[0]) + ")"
			}
		}
		if obj := g.pkg.Scope().Lookup(id.Name); obj != nil {
			if _, ok := obj.(*types.TypeName); ok && len(x.Args) == 1 {
				if g.isInt(x.Args[0]) {
					return id.Name + "(" + g.intOp(x.Args[0]) + ")"
				}
				return id.Name + "(" + g.expr(x.Args[0]) + ")"
			}
		}
		// spec / pred of this package
		if sp := g.f.eng.cs.Specs[g.pkg.Path()+"."+id.Name]; sp != nil {
			return g.specCall(sp, x)
		}
		if sp := g.f.eng.cs.Specs[id.Name]; sp != nil {
			return g.specCall(sp, x)
		}
		g.bail("call of %s", id.Name)
	}
	if sel, ok := x.Fun.(*ast.SelectorExpr); ok {
		if id, ok := sel.X.(*ast.Ident); ok && id.Name == "parser" && sel.Sel.Name == "inv" && !g.isValue("parser") && g.pkg.Path() != modPath+"/parser" {
			// outside package parser a *Parser is built by parser.New and
			// SeekPos (see parserValue): its invariant holds by construction
			return "true /* parser.inv: value built by parser.New */"
		}
		// conversion to an imported type: glyph.ID(x)
		if id, ok := sel.X.(*ast.Ident); ok && !g.isValue(id.Name) {
			for _, imp := range g.pkg.Imports() {
				if imp.Name() == id.Name {
					if obj := imp.Scope().Lookup(sel.Sel.Name); obj != nil {
						if _, ok := obj.(*types.TypeName); ok && len(x.Args) == 1 {
							g.imports[imp.Path()] = imp.Name()
							return id.Name + "." + sel.Sel.Name + "(" + g.intOp(x.Args[0]) + ")"
						}
					}
				}
			}
		}
	}
	g.bail("call %s", exprString(x.Fun))
	return ""
}

func (g *rtGen) specCall(sp *SpecFn, x *ast.CallExpr) string {
	if sp.Ghost || sp.Body == nil {
		g.bail("ghost %s", sp.Name)
	}
	if sp.PkgPath != "" && sp.PkgPath != g.pkg.Path() {
		g.bail("spec %s of another package", sp.Name)
	}
	if len(x.Args) != len(sp.Params) {
		g.bail("spec arity")
	}
	var as []string
	for i, a := range x.Args {
		pt := exprString(sp.Params[i].Type)
		switch pt {
		case "int":
			as = append(as, g.intOp(a))
		case "seq":
			g.bail("ghost sequence parameter")
		default:
			if g.isInt(a) && (g.namedIntType(pt) != "" || types.Universe.Lookup(pt) != nil) {
				as = append(as, pt+"("+g.intOp(a)+")")
			} else {
				as = append(as, g.expr(a))
			}
		}
	}
	if _, done := g.specs[sp.Name]; !done {
		g.specs[sp.Name] = "" // breaks recursion
		g.specTodo = append(g.specTodo, sp.Name)
		sub := &rtGen{f: g.f, pkg: g.pkg, imports: g.imports, specs: g.specs, params: map[string]bool{}, bound: map[string]bool{}, lets: map[string]ast.Expr{}}
		var ps []string
		for _, p := range sp.Params {
			sub.params[p.Name] = true
			ps = append(ps, p.Name+" "+sub.typeExpr(p.Type))
		}
		rt := "int"
		if sp.ResType != nil {
			rt = sub.typeExpr(sp.ResType)
		} else if ni, ok := info(sp.Body); ok && ni.K == KBool {
			rt = "bool"
		}
		var body string
		if rt == "int" {
			body = sub.intOp(sp.Body)
		} else {
			body = sub.expr(sp.Body)
		}
		g.specTodo = append(g.specTodo, sub.specTodo...)
		g.specs[sp.Name] = fmt.Sprintf("func gvcSpec_%s(%s) %s {\n\tgvcFuel()\n\treturn %s\n}\n", sp.Name, strings.Join(ps, ", "), rt, body)
	}
	return "gvcSpec_" + sp.Name + "(" + strings.Join(as, ", ") + ")"
}

func (g *rtGen) specSources() string {
	var names []string
	for n := range g.specs {
		names = append(names, n)
	}
	sort.Strings(names)
	var sb strings.Builder
	for _, n := range names {
		sb.WriteString(g.specs[n])
		sb.WriteByte('\n')
	}
	return sb.String()
}

const rtHelpers = `
type gvcSkip struct{ why string }

var gvcFuelLeft = 20000000

func gvcFuel() {
	gvcFuelLeft--
	if gvcFuelLeft < 0 {
		panic(gvcSkip{"evaluation budget exhausted"})
	}
}

func gvcRange(lo, hi int) {
	if hi-lo > 1<<22 {
		panic(gvcSkip{"quantifier range too large"})
	}
}

func gvcAbs(x int) int {
	if x < 0 {
		return -x
	}
	return x
}

func gvcBe16(b []byte, i int) int { return int(b[i])<<8 | int(b[i+1]) }

func gvcBe32(b []byte, i int) int {
	return int(b[i])<<24 | int(b[i+1])<<16 | int(b[i+2])<<8 | int(b[i+3])
}

func gvcDeepEqual(a, b any) bool {
	va, vb := reflect.ValueOf(a), reflect.ValueOf(b)
	if va.IsValid() && vb.IsValid() && va.Kind() == reflect.Slice && vb.Kind() == reflect.Slice && va.Len() == 0 && vb.Len() == 0 {
		return true
	}
	return reflect.DeepEqual(a, b)
}

// gvcDeep copies a value together with everything reachable from it through
// slices, pointers, maps and struct fields (the pre-state snapshot for old()).
func gvcDeep[T any](x T) T {
	v := reflect.ValueOf(&x).Elem()
	out := reflect.New(v.Type()).Elem()
	gvcCopy(out, v, 0)
	return out.Interface().(T)
}

func gvcCopy(dst, src reflect.Value, depth int) {
	if depth > 40 {
		dst.Set(src)
		return
	}
	if !dst.CanSet() {
		dst = reflect.NewAt(dst.Type(), unsafe.Pointer(dst.UnsafeAddr())).Elem()
	}
	if !src.CanInterface() && src.CanAddr() {
		src = reflect.NewAt(src.Type(), unsafe.Pointer(src.UnsafeAddr())).Elem()
	}
	switch src.Kind() {
	case reflect.Slice:
		if src.IsNil() {
			return
		}
		n := reflect.MakeSlice(src.Type(), src.Len(), src.Len())
		for i := 0; i < src.Len(); i++ {
			gvcCopy(n.Index(i), src.Index(i), depth+1)
		}
		dst.Set(n)
	case reflect.Ptr:
		if src.IsNil() {
			return
		}
		n := reflect.New(src.Type().Elem())
		gvcCopy(n.Elem(), src.Elem(), depth+1)
		dst.Set(n)
	case reflect.Struct:
		tmp := reflect.New(src.Type()).Elem()
		tmp.Set(src)
		for i := 0; i < src.NumField(); i++ {
			gvcCopy(tmp.Field(i), tmp.Field(i), depth+1)
		}
		dst.Set(tmp)
	case reflect.Map:
		if src.IsNil() {
			return
		}
		n := reflect.MakeMap(src.Type())
		it := src.MapRange()
		for it.Next() {
			v := reflect.New(src.Type().Elem()).Elem()
			gvcCopy(v, it.Value(), depth+1)
			n.SetMapIndex(it.Key(), v)
		}
		dst.Set(n)
	case reflect.Array:
		for i := 0; i < src.Len(); i++ {
			gvcCopy(dst.Index(i), src.Index(i), depth+1)
		}
	default:
		dst.Set(src)
	}
}

// gvcCheck evaluates one contract clause; a clause that cannot be evaluated
// (index out of range inside the clause, budget) is skipped, not failed.
func gvcCheck(t *testing.T, kind, src string, fn func() bool) (ok bool) {
	defer func() {
		if r := recover(); r != nil {
			t.Logf("GVC-REPLAY-SKIP %s clause not evaluable (%v): %s", kind, r, src)
			ok = true
		}
	}()
	if fn() {
		return true
	}
	if kind == "PRE" {
		t.Logf("GVC-REPLAY-PRE-VIOLATED: the model input does not satisfy: %s", src)
	} else {
		t.Errorf("GVC-REPLAY-POST: postcondition violated on the real code: %s", src)
	}
	return false
}
`
