package main

import (
	"go/token"
	"go/ast"
	"go/constant"
	"regexp"
	"fmt"
	"go/types"
	"math/big"
	"strings"

	"golang.org/x/tools/go/ssa"
)

// Assumed behaviour of standard-library functions (A-EXT).  Every use is
// recorded in f.usedAssumed and reported in the evidence.

var pureFuncs = []string{
	"errors.New", "fmt.Errorf", "fmt.Sprintf", "fmt.Sprint", "fmt.Sprintln",
	"strings.", "math.", "math/bits.", "unicode.", "unicode/utf8.", "unicode/utf16.",
	"bytes.Equal", "bytes.Compare", "bytes.HasPrefix", "bytes.HasSuffix", "bytes.Index", "bytes.IndexByte", "bytes.Contains",
	"strconv.", "(time.Time).", "time.Unix", "time.Date", "errors.Is", "errors.As", "(*errors.errorString).Error",
	"slices.Contains", "slices.Index", "slices.Equal", "(*strings.Builder).String", "(*strings.Builder).Len",
	"golang.org/x/text/language.", "seehuhn.de/go/postscript/type1/names.FromUnicode",
}

func libName(x *ssa.Call) string {
	if fn := x.Call.StaticCallee(); fn != nil {
		s := fn.String()
		if fn.Pkg == nil && fn.Origin() != nil {
			s = fn.Origin().String()
		}
		return s
	}
	return ""
}

func isPureLib(name string) bool {
	if name == "" {
		return false
	}
	for _, p := range pureFuncs {
		if name == p || (strings.HasSuffix(p, ".") && strings.HasPrefix(name, p)) || (strings.HasSuffix(p, ".") && strings.HasPrefix(name, "("+p[:len(p)-1])) {
			return true
		}
	}
	return false
}

// libEffects returns the heap prefixes a known library call may modify.
func libEffects(x *ssa.Call) ([]string, bool) {
	name := libName(x)
	if isPureLib(name) {
		return nil, true
	}
	switch name {
	case "(encoding/binary.bigEndian).Uint16", "(encoding/binary.bigEndian).Uint32", "(encoding/binary.bigEndian).Uint64":
		return nil, true
	case "(encoding/binary.bigEndian).PutUint16", "(encoding/binary.bigEndian).PutUint32", "(encoding/binary.bigEndian).PutUint64":
		return []string{"M:uint8"}, true
	case "sort.Slice", "sort.SliceStable":
		if mi, ok := x.Call.Args[0].(*ssa.MakeInterface); ok {
			if sl, ok := mi.X.Type().Underlying().(*types.Slice); ok {
				return []string{elemHeapPrefix(sl.Elem())}, true
			}
		}
		return nil, false
	case "golang.org/x/exp/maps.Keys", "maps.Keys":
		if sl, ok := x.Type().Underlying().(*types.Slice); ok {
			return []string{elemHeapPrefix(sl.Elem())}, true
		}
		return nil, false
	case "encoding/binary.Write":
		if mi, ok := x.Call.Args[0].(*ssa.MakeInterface); ok && mi.X.Type().String() == "*bytes.Buffer" {
			return []string{"G:blen", "G:bdata"}, true
		}
		return nil, false
	case "encoding/binary.Read":
		if di, ok := x.Call.Args[2].(*ssa.MakeInterface); ok {
			if sl, ok := di.X.Type().Underlying().(*types.Slice); ok && isByteType(sl.Elem()) {
				return []string{"M:uint8", "G:rpos", "G:faults"}, true
			}
			if pt, ok := di.X.Type().Underlying().(*types.Pointer); ok {
				if _, ok := pt.Elem().Underlying().(*types.Struct); ok {
					return []string{structHeapPrefix(pt.Elem()), "G:rpos", "G:faults"}, true
				}
			}
		}
		return nil, false
	case "(*bytes.Buffer).Bytes", "(*bytes.Buffer).Len", "(*bytes.Buffer).String", "sort.Search":
		return nil, true
	}
	if strings.HasSuffix(name, "slices.BinarySearch") {
		return nil, true
	}
	if strings.HasSuffix(name, "slices.Insert") || strings.HasSuffix(name, "slices.Grow") || strings.HasSuffix(name, "slices.Delete") {
		if sl, ok := x.Call.Args[0].Type().Underlying().(*types.Slice); ok {
			return []string{elemHeapPrefix(sl.Elem())}, true
		}
	}
	switch name {
	}
	return nil, false
}

func (f *FuncVC) libCall(st *State, x *ssa.Call, args []*Val) (*Val, bool) {
	name := libName(x)
	if name == "" {
		return nil, false
	}
	resTy := x.Type()
	switch name {
	case "errors.New", "fmt.Errorf":
		f.usedAssumed[name+": returns a fresh non-nil error, no side effects"] = true
		id := f.alloc(st)
		return &Val{K: KIface, Ty: resTy, Fs: []*Val{vInt(f.typeTag(types.NewPointer(types.NewNamed(types.NewTypeName(0, nil, "$"+name, nil), types.NewStruct(nil, nil), nil))), nil), vInt(id, nil)}}, true
	case "(encoding/binary.bigEndian).Uint16", "(encoding/binary.bigEndian).Uint32":
		f.usedAssumed[name+": big-endian read, panics if the slice is too short"] = true
		n := int64(2)
		if strings.HasSuffix(name, "32") {
			n = 4
		}
		b := args[1]
		f.oblige(st, "index", f.srcAt(x.Pos()), cmp(">=", b.Fs[2].T, num(n)))
		h := f.heap(st, "M:uint8", arraySort(2, "Int"))
		t := "0"
		for k := int64(0); k < n; k++ {
			by := f.sc.define("by", "Int", sel(sel(h, b.Fs[0].T), arith("+", b.Fs[1].T, num(k))))
			f.fact(st, and(cmp("<=", "0", by), cmp("<=", by, "255")))
			t = arith("+", arith("*", t, "256"), by)
		}
		lo, hi, _ := intRangeOf(resTy)
		return &Val{K: KInt, Ty: resTy, T: f.sc.define("be", "Int", t), Lo: lo, Hi: hi}, true
	case "(encoding/binary.bigEndian).PutUint16", "(encoding/binary.bigEndian).PutUint32":
		f.usedAssumed[name+": big-endian write, panics if the slice is too short"] = true
		n := int64(2)
		if strings.HasSuffix(name, "32") {
			n = 4
		}
		b, v := args[1], args[2]
		f.oblige(st, "index", f.srcAt(x.Pos()), cmp(">=", b.Fs[2].T, num(n)))
		if f.con != nil && f.con.HasMod {
			f.frameCheck(st, &PtrInfo{Heap: "M:uint8", Base: []string{b.Fs[0].T, b.Fs[1].T}})
		}
		hs := arraySort(2, "Int")
		h := f.heap(st, "M:uint8", hs)
		arr := sel(h, b.Fs[0].T)
		for k := int64(0); k < n; k++ {
			shift := uint(8 * (n - 1 - k))
			by := "(mod (div " + v.T + " " + pow2(shift).String() + ") 256)"
			arr = store(arr, arith("+", b.Fs[1].T, num(k)), by)
		}
		f.setHeap(st, "M:uint8", hs, store(h, b.Fs[0].T, arr))
		return &Val{K: KTuple, Ty: resTy}, true
	case "math/bits.Len", "math/bits.Len8", "math/bits.Len16", "math/bits.Len32", "math/bits.Len64":
		f.usedAssumed["math/bits.Len*: r with 2^(r-1) <= x < 2^r, Len(0)=0"] = true
		v := args[0]
		r := f.sc.fresh("bitlen")
		f.sc.declare(r, "Int")
		p := f.pow2Term(st, &Val{T: r})
		pm := f.pow2Term(st, &Val{T: arith("-", r, "1")})
		f.fact(st, and(cmp("<=", "0", r), cmp("<=", r, "64"), implies(eq(v.T, "0"), eq(r, "0")),
			implies(cmp(">", v.T, "0"), and(cmp("<=", pm, v.T), cmp("<", v.T, p)))))
		return &Val{K: KInt, Ty: resTy, T: r, Lo: big.NewInt(0), Hi: big.NewInt(64)}, true
	}
	switch name {
	case "sort.Slice", "sort.SliceStable":
		// assumed: reorders the elements of the slice in place, nothing else
		// (the comparison closure is assumed to be free of side effects)
		if mi, ok := x.Call.Args[0].(*ssa.MakeInterface); ok {
			if sl, ok := mi.X.Type().Underlying().(*types.Slice); ok {
				f.usedAssumed[name+": permutes the elements of its argument slice in place; no other effect"] = true
				sv := f.val(st, mi.X)
				m := resolvedMod{kind: "elems", heap: elemHeapPrefix(sl.Elem()), obj: sv.Fs[0].T, off: sv.Fs[1].T, ln: sv.Fs[2].T, text: "sorted slice"}
				names, sorts, _ := elemLeaves(sl.Elem())
				var before []string
				for i, hn := range names {
					before = append(before, sel(f.heap(st, hn, arraySort(2, sorts[i])), sv.Fs[0].T))
				}
				f.applyMod(st, m, f.srcAt(x.Pos()))
				// every element afterwards is one of the elements before (same index map for all leaves)
				perm := f.sc.fresh("perm")
				f.sc.declareFun(perm, []string{"Int"}, "Int")
				// ... and every element before is one of the elements afterwards
				inv := f.sc.fresh("perminv")
				f.sc.declareFun(inv, []string{"Int"}, "Int")
				{
					// perm and perminv are inverse bijections of the index range
					q := f.sc.fresh("k")
					lo, hi := sv.Fs[1].T, arith("+", sv.Fs[1].T, sv.Fs[2].T)
					f.fact(st, fmt.Sprintf("(forall ((%s Int)) (! (=> (and (<= %s %s) (< %s %s)) (= (%s (%s %s)) %s)) :pattern ((%s %s))))", q, lo, q, q, hi, inv, perm, q, q, perm, q))
					f.fact(st, fmt.Sprintf("(forall ((%s Int)) (! (=> (and (<= %s %s) (< %s %s)) (= (%s (%s %s)) %s)) :pattern ((%s %s))))", q, lo, q, q, hi, perm, inv, q, q, inv, q))
				}
				for i, hn := range names {
					after := sel(f.heap(st, hn, arraySort(2, sorts[i])), sv.Fs[0].T)
					after = f.sc.nameConst("sorted", arraySort(1, sorts[i]), after)
					bef := f.sc.nameConst("unsorted", arraySort(1, sorts[i]), before[i])
					q := f.sc.fresh("k")
					lo, hi := sv.Fs[1].T, arith("+", sv.Fs[1].T, sv.Fs[2].T)
					f.fact(st, fmt.Sprintf("(forall ((%s Int)) (! (=> (and (<= %s %s) (< %s %s)) (and (<= %s (%s %s)) (< (%s %s) %s) (= (select %s %s) (select %s (%s %s))))) :pattern ((select %s %s))))",
						q, lo, q, q, hi, lo, perm, q, perm, q, hi, after, q, bef, perm, q, after, q))
					f.fact(st, fmt.Sprintf("(forall ((%s Int)) (! (=> (and (<= %s %s) (< %s %s)) (and (<= %s (%s %s)) (< (%s %s) %s) (= (select %s %s) (select %s (%s %s))))) :pattern ((select %s %s))))",
						q, lo, q, q, hi, lo, inv, q, inv, q, hi, bef, q, after, inv, q, bef, q))
				}
				// sortedness for the plain comparators s[i] < s[j] / s[i] > s[j]
				// over the sorted slice itself (integer elements)
				if dir := simpleComparator(x, mi); dir != "" && len(names) == 1 && sorts[0] == "Int" {
					f.usedAssumed[name+": with the comparator s[i] < s[j] (s[i] > s[j]) the slice ends up in non-decreasing (non-increasing) order"] = true
					after := sel(f.heap(st, names[0], arraySort(2, sorts[0])), sv.Fs[0].T)
					after = f.sc.nameConst("sortedrow", arraySort(1, sorts[0]), after)
					a, b := f.sc.fresh("a"), f.sc.fresh("b")
					lo, hi := sv.Fs[1].T, arith("+", sv.Fs[1].T, sv.Fs[2].T)
					op := "<="
					if dir == ">" {
						op = ">="
					}
					f.fact(st, fmt.Sprintf("(forall ((%s Int) (%s Int)) (! (=> (and (<= %s %s) (< %s %s) (< %s %s)) (%s (select %s %s) (select %s %s))) :pattern ((select %s %s) (select %s %s))))",
						a, b, lo, a, a, b, b, hi, op, after, a, after, b, after, a, after, b))
				}
				return &Val{K: KTuple, Ty: resTy}, true
			}
		}
	case "golang.org/x/exp/maps.Keys", "maps.Keys":
		if r, ok := f.mapsKeys(st, x, args); ok {
			return r, true
		}
	case "sort.Search":
		f.usedAssumed[name+": returns an index in [0,n]; the predicate closure is assumed free of side effects"] = true
		r := f.freshTyped(st, resTy, "search")
		f.fact(st, and(cmp("<=", "0", r.T), cmp("<=", r.T, "(imax "+args[0].T+" 0)")))
		return r, true
	case "(*bytes.Buffer).Bytes":
		f.usedAssumed[name+": returns a slice of the buffer contents (contents not modelled)"] = true
		return f.freshTyped(st, resTy, "bufbytes"), true
	case "(*bytes.Buffer).Len":
		f.usedAssumed[name+": pure"] = true
		r := f.freshTyped(st, resTy, "buflen")
		f.fact(st, cmp(">=", r.T, "0"))
		return r, true
	case "encoding/binary.Read":
		if r, ok := f.binaryRead(st, x, args); ok {
			return r, true
		}
	case "encoding/binary.Write":
		// assumed: serialises into the writer argument; when that writer is a
		// *bytes.Buffer created locally nothing visible to our heaps changes
		if mi, ok := x.Call.Args[0].(*ssa.MakeInterface); ok && mi.X.Type().String() == "*bytes.Buffer" {
			f.usedAssumed[name+" into a *bytes.Buffer: appends binary.Size(data) bytes for fixed-size data (content not modelled), no other effect"] = true
			// length accounting for fixed-size data (pointer to struct of fixed-size fields)
			bv := f.val(st, mi.X)
			hs := "(Array Int Int)"
			h := f.heap(st, "G:blen", hs)
			len0 := f.sc.define("blen0", "Int", sel(h, bv.T))
			sized := false
			if di, ok := x.Call.Args[2].(*ssa.MakeInterface); ok {
				if sz, ok := binarySize(di.X.Type()); ok {
					sized = true
					f.setHeap(st, "G:blen", hs, store(h, bv.T, arith("+", len0, num(sz))))
					f.binaryWriteContent(st, x, bv, len0, di)
				}
			}
			if !sized {
				// data of a size the model does not compute (slices): some number
				// of bytes is appended, the earlier content is kept
				nl := f.sc.fresh("blen")
				f.sc.declare(nl, "Int")
				f.fact(st, cmp(">=", nl, len0))
				f.setHeap(st, "G:blen", hs, store(h, bv.T, nl))
				ds := "(Array Int (Array Int Int))"
				dh := f.heap(st, "G:bdata", ds)
				old := f.sc.nameConst("bdata0", "(Array Int Int)", sel(dh, bv.T))
				nd := f.sc.fresh("bdata")
				f.sc.declare(nd, "(Array Int Int)")
				f.setHeap(st, "G:bdata", ds, store(dh, bv.T, nd))
				q := f.sc.fresh("k")
				f.fact(st, fmt.Sprintf("(forall ((%s Int)) (! (=> (and (<= 0 %s) (< %s %s)) (= (select %s %s) (select %s %s))) :pattern ((select %s %s))))", q, q, q, len0, nd, q, old, q, nd, q))
			}
			return f.freshTyped(st, resTy, "binwrite"), true
		}
	}
	if strings.HasSuffix(name, "slices.Grow") && len(args) == 2 && args[0].K == KSlice {
		// slices.Grow(s, n): same elements and length, capacity >= len+n; the
		// result is s itself if the capacity suffices, else a fresh copy
		f.usedAssumed["slices.Grow: result has the same length and elements, cap >= len+n, and is either s or freshly allocated; panics for n < 0"] = true
		sv, n := args[0], args[1]
		f.oblige(st, "make", f.srcAt(x.Pos()), and(cmp(">=", n.T, "0"), cmp("<=", arith("+", sv.Fs[2].T, n.T), maxElems)))
		et := sv.Ty.Underlying().(*types.Slice).Elem()
		fits := f.sc.define("gfits", "Bool", cmp("<=", arith("+", sv.Fs[2].T, n.T), sv.Fs[3].T))
		newRef := f.alloc(st)
		newCap := f.sc.fresh("gcap")
		f.sc.declare(newCap, "Int")
		f.fact(st, and(cmp(">=", newCap, arith("+", sv.Fs[2].T, n.T)), cmp("<=", newCap, maxElems)))
		names, sorts, _ := elemLeaves(et)
		for i, hn := range names {
			hs := arraySort(2, sorts[i])
			h := f.heap(st, hn, hs)
			cp := f.sc.fresh("garr")
			f.sc.declare(cp, arraySort(1, sorts[i]))
			q := f.sc.fresh("k")
			f.fact(st, fmt.Sprintf("(forall ((%s Int)) (! (=> (and (<= 0 %s) (< %s %s)) (= (select %s %s) (select (select %s %s) (+ %s %s)))) :pattern ((select %s %s))))", q, q, q, sv.Fs[2].T, cp, q, h, sv.Fs[0].T, sv.Fs[1].T, q, cp, q))
			f.setHeap(st, hn, hs, ite(fits, h, store(h, newRef, cp)))
		}
		r := &Val{K: KSlice, Ty: x.Type(), Fs: []*Val{
			vInt(f.sc.define("gref", "Int", ite(fits, sv.Fs[0].T, newRef)), nil),
			vInt(f.sc.define("goff", "Int", ite(fits, sv.Fs[1].T, "0")), nil),
			vInt(sv.Fs[2].T, nil),
			vInt(f.sc.define("gcap", "Int", ite(fits, sv.Fs[3].T, newCap)), nil)}}
		r.Fs[2].Lo = big.NewInt(0)
		return r, true
	}
	if strings.HasSuffix(name, "slices.BinarySearch") && len(args) == 2 && args[0].K == KSlice && args[1].K == KInt {
		// slices.BinarySearch(s, x) on an integer slice: pure; the position lies
		// in [0, len(s)], and a reported hit is a real one (nothing is claimed
		// for unsorted input beyond that, which is what the real function gives)
		f.usedAssumed["slices.BinarySearch: pure; 0 <= idx <= len(s); found implies idx < len(s) && s[idx] == target"] = true
		r := f.freshTyped(st, resTy, "bsearch")
		if r.K == KTuple && len(r.Fs) == 2 {
			sv := args[0]
			et := sv.Ty.Underlying().(*types.Slice).Elem()
			names, sorts, _ := elemLeaves(et)
			idx, found := r.Fs[0].T, r.Fs[1].T
			f.fact(st, and(cmp("<=", "0", idx), cmp("<=", idx, sv.Fs[2].T)))
			if len(names) == 1 {
				h := f.heap(st, names[0], arraySort(2, sorts[0]))
				f.fact(st, implies(found, and(cmp("<", idx, sv.Fs[2].T), eq(sel(sel(h, sv.Fs[0].T), arith("+", sv.Fs[1].T, idx)), args[1].T))))
			} else {
				f.fact(st, implies(found, cmp("<", idx, sv.Fs[2].T)))
			}
			return r, true
		}
	}
	if strings.HasSuffix(name, "slices.Delete") && len(args) == 3 && args[0].K == KSlice {
		// slices.Delete(s, i, j): removes s[i:j] in place
		f.usedAssumed["slices.Delete: removes s[i:j] in place (elements after j move down; the vacated tail is unspecified); panics unless 0 <= i <= j <= len(s)"] = true
		sv, i, j := args[0], args[1], args[2]
		f.oblige(st, "slice", f.srcAt(x.Pos()), and(cmp("<=", "0", i.T), cmp("<=", i.T, j.T), cmp("<=", j.T, sv.Fs[2].T)))
		et := sv.Ty.Underlying().(*types.Slice).Elem()
		d := f.sc.define("dcount", "Int", arith("-", j.T, i.T))
		if f.con != nil && f.con.HasMod {
			f.frameCheck(st, &PtrInfo{Heap: elemHeapPrefix(et), Base: []string{sv.Fs[0].T, sv.Fs[1].T}})
		}
		names, sorts, _ := elemLeaves(et)
		for k, hn := range names {
			hs := arraySort(2, sorts[k])
			h := f.heap(st, hn, hs)
			old := sel(h, sv.Fs[0].T)
			fr := f.sc.fresh("darr")
			f.sc.declare(fr, arraySort(1, sorts[k]))
			q := f.sc.fresh("k")
			off := sv.Fs[1].T
			// absolute index q: below off+i unchanged; [off+i, off+len-d) shifted; beyond off+len unchanged
			f.fact(st, fmt.Sprintf("(forall ((%s Int)) (! (and (=> (or (< %s (+ %s %s)) (>= %s (+ %s %s))) (= (select %s %s) (select %s %s))) (=> (and (<= (+ %s %s) %s) (< %s (- (+ %s %s) %s))) (= (select %s %s) (select %s (+ %s %s))))) :pattern ((select %s %s))))",
				q, q, off, i.T, q, off, sv.Fs[2].T, fr, q, old, q,
				off, i.T, q, q, off, sv.Fs[2].T, d, fr, q, old, q, d, fr, q))
			f.setHeap(st, hn, hs, store(h, sv.Fs[0].T, fr))
		}
		r := &Val{K: KSlice, Ty: x.Type(), Fs: []*Val{vInt(sv.Fs[0].T, nil), vInt(sv.Fs[1].T, nil), vInt(f.sc.define("dlen", "Int", arith("-", sv.Fs[2].T, d)), nil), vInt(sv.Fs[3].T, nil)}}
		r.Fs[2].Lo = big.NewInt(0)
		return r, true
	}
	if strings.HasSuffix(name, "slices.Insert") && len(args) >= 2 && args[0].K == KSlice {
		f.usedAssumed["slices.Insert: returns a slice of length len(s)+len(values) (contents not modelled); panics if the index is out of range"] = true
		f.oblige(st, "index", f.srcAt(x.Pos()), and(cmp("<=", "0", args[1].T), cmp("<=", args[1].T, args[0].Fs[2].T)))
		nv := "1"
		if len(args) >= 3 && args[2].K == KSlice {
			nv = args[2].Fs[2].T
		}
		// the backing array of s may be overwritten in place: havoc its elements
		et := args[0].Ty.Underlying().(*types.Slice).Elem()
		f.applyMod(st, resolvedMod{kind: "elems", heap: elemHeapPrefix(et), obj: args[0].Fs[0].T, off: args[0].Fs[1].T, ln: args[0].Fs[3].T, text: "slices.Insert argument"}, f.srcAt(x.Pos()))
		r := f.freshTyped(st, resTy, "ins")
		f.fact(st, eq(r.Fs[2].T, arith("+", args[0].Fs[2].T, nv)))
		f.fact(st, or(eq(r.Fs[0].T, args[0].Fs[0].T), cmp(">=", r.Fs[0].T, st.wm)))
		f.bumpWM(st)
		return r, true
	}
	if name == "fmt.Sprintf" && len(x.Call.Args) >= 1 {
		if c, ok := x.Call.Args[0].(*ssa.Const); ok && c.Value != nil {
			fm := constant.StringVal(c.Value)
			lit := len(regexp.MustCompile(`%[^a-zA-Z%]*[a-zA-Z%]`).ReplaceAllString(fm, ""))
			f.usedAssumed["fmt.Sprintf: pure; the result is at least as long as the literal part of a constant format string"] = true
			r := f.freshTyped(st, resTy, "sprintf")
			f.fact(st, cmp(">=", "(gstr.len "+r.T+")", num(int64(lit))))
			return r, true
		}
	}
	if isPureLib(name) {
		f.usedAssumed[name+": pure (fresh result, no heap effect)"] = true
		r := f.freshTyped(st, resTy, "lib")
		return r, true
	}
	return nil, false
}

// binarySize mirrors encoding/binary.Size for fixed-size data.
func binarySize(t types.Type) (int64, bool) {
	switch u := t.Underlying().(type) {
	case *types.Pointer:
		return binarySize(u.Elem())
	case *types.Basic:
		switch u.Kind() {
		case types.Int8, types.Uint8, types.Bool:
			return 1, true
		case types.Int16, types.Uint16:
			return 2, true
		case types.Int32, types.Uint32, types.Float32:
			return 4, true
		case types.Int64, types.Uint64, types.Float64:
			return 8, true
		}
	case *types.Array:
		n, ok := binarySize(u.Elem())
		return n * u.Len(), ok
	case *types.Struct:
		var total int64
		for i := 0; i < u.NumFields(); i++ {
			n, ok := binarySize(u.Field(i).Type())
			if !ok {
				return 0, false
			}
			total += n
		}
		return total, true
	}
	return 0, false
}

// binaryRead models encoding/binary.Read(r, binary.BigEndian, &structValue)
// for structs of fixed-size integer fields and integer arrays: the fields are
// the big-endian interpretation of consecutive bytes of the reader's input, in
// declaration order (assumed behaviour of encoding/binary, A-EXT).
// binaryWriteContent: binary.Write(buf, BigEndian, *struct) appends the fields
// in declaration order, big-endian, two's complement (assumed behaviour of
// encoding/binary, A-EXT); the earlier content of the buffer is unchanged.
func (f *FuncVC) binaryWriteContent(st *State, x *ssa.Call, bv *Val, len0 string, di *ssa.MakeInterface) {
	ds := "(Array Int (Array Int Int))"
	dh := f.heap(st, "G:bdata", ds)
	old := f.sc.nameConst("bdata0", "(Array Int Int)", sel(dh, bv.T))
	nd := f.sc.fresh("bdata")
	f.sc.declare(nd, "(Array Int Int)")
	f.setHeap(st, "G:bdata", ds, store(dh, bv.T, nd))
	q := f.sc.fresh("k")
	f.fact(st, fmt.Sprintf("(forall ((%s Int)) (! (=> (and (<= 0 %s) (< %s %s)) (= (select %s %s) (select %s %s))) :pattern ((select %s %s))))", q, q, q, len0, nd, q, old, q, nd, q))
	pt, ok := di.X.Type().Underlying().(*types.Pointer)
	if !ok {
		return
	}
	sty, ok := pt.Elem().Underlying().(*types.Struct)
	if !ok {
		return
	}
	obj := f.val(st, di.X)
	if obj.K != KPtr || obj.P != nil || len(obj.Fs) != 0 {
		return
	}
	f.usedAssumed["encoding/binary.Write(buf, BigEndian, *struct) appends the big-endian two's complement bytes of the fields in declaration order"] = true
	prefix := structHeapPrefix(pt.Elem())
	off := int64(0)
	byteOf := func(v string, n, k int64) string {
		// byte k (0 = most significant) of the n-byte two's complement of v
		div := new(big.Int).Exp(big.NewInt(256), big.NewInt(n-1-k), nil)
		mod := new(big.Int).Exp(big.NewInt(256), big.NewInt(n), nil)
		return "(mod (div (mod " + v + " " + mod.String() + ") " + div.String() + ") 256)"
	}
	for i := 0; i < sty.NumFields(); i++ {
		fld := sty.Field(i)
		n, _ := binarySize(fld.Type())
		hn := prefix + "." + fld.Name()
		switch u := fld.Type().Underlying().(type) {
		case *types.Basic:
			if u.Info()&types.IsInteger != 0 {
				v := f.sc.define("wfld", "Int", sel(f.heap(st, hn, "(Array Int Int)"), obj.T))
				for k := int64(0); k < n; k++ {
					f.fact(st, eq(sel(nd, arith("+", len0, num(off+k))), byteOf(v, n, k)))
				}
			}
		case *types.Array:
			eb := basicOf(u.Elem())
			es, _ := binarySize(u.Elem())
			if eb != nil && eb.Info()&types.IsInteger != 0 {
				arr := f.sc.nameConst("wfldarr", "(Array Int Int)", sel(f.heap(st, hn, "(Array Int (Array Int Int))"), obj.T))
				if u.Len() <= 16 {
					for e := int64(0); e < u.Len(); e++ {
						for k := int64(0); k < es; k++ {
							f.fact(st, eq(sel(nd, arith("+", len0, num(off+e*es+k))), byteOf(sel(arr, num(e)), es, k)))
						}
					}
				}
			}
		}
		off += n
	}
}

// simpleComparator recognises sort.Slice(s, func(i, j int) bool { return s[i] < s[j] })
// (or >) where s is the very slice being sorted; it returns "<", ">" or "".
func simpleComparator(x *ssa.Call, mi *ssa.MakeInterface) string {
	if len(x.Call.Args) < 2 {
		return ""
	}
	mc, ok := x.Call.Args[1].(*ssa.MakeClosure)
	if !ok {
		return ""
	}
	fn, ok := mc.Fn.(*ssa.Function)
	if !ok {
		return ""
	}
	fl, ok := fn.Syntax().(*ast.FuncLit)
	if !ok || len(fl.Body.List) != 1 || fl.Type.Params == nil {
		return ""
	}
	var params []string
	for _, p := range fl.Type.Params.List {
		for _, n := range p.Names {
			params = append(params, n.Name)
		}
	}
	ret, ok := fl.Body.List[0].(*ast.ReturnStmt)
	if !ok || len(ret.Results) != 1 || len(params) != 2 {
		return ""
	}
	be, ok := ret.Results[0].(*ast.BinaryExpr)
	if !ok || (be.Op != token.LSS && be.Op != token.GTR) {
		return ""
	}
	side := func(e ast.Expr, idx string) string {
		ie, ok := e.(*ast.IndexExpr)
		if !ok {
			return ""
		}
		base, ok1 := ie.X.(*ast.Ident)
		ix, ok2 := ie.Index.(*ast.Ident)
		if !ok1 || !ok2 || ix.Name != idx {
			return ""
		}
		return base.Name
	}
	sa, sb := side(be.X, params[0]), side(be.Y, params[1])
	if sa == "" || sa != sb {
		return ""
	}
	// the compared slice must be the sorted one: the closure captures the
	// variable whose current value is passed as the first argument
	ld, ok := mi.X.(*ssa.UnOp)
	if !ok || ld.Op != token.MUL {
		return ""
	}
	for i, fv := range fn.FreeVars {
		if fv.Name() == sa && i < len(mc.Bindings) && mc.Bindings[i] == ld.X {
			if be.Op == token.LSS {
				return "<"
			}
			return ">"
		}
	}
	return ""
}

// mapsKeys models maps.Keys(m) (golang.org/x/exp/maps): a fresh slice that
// holds every key of m exactly once, in unspecified order.
func (f *FuncVC) mapsKeys(st *State, x *ssa.Call, args []*Val) (*Val, bool) {
	if len(args) != 1 || args[0].K != KMap {
		return nil, false
	}
	mt, ok := x.Call.Args[0].Type().Underlying().(*types.Map)
	if !ok {
		return nil, false
	}
	sl, ok := x.Type().Underlying().(*types.Slice)
	if !ok || kindOf(sl.Elem()) != KInt {
		return nil, false
	}
	dom, ln, ksort, ok := f.mapHeaps(st, args[0], mt)
	if !ok || ksort != "Int" {
		return nil, false
	}
	f.usedAssumed["maps.Keys: returns a fresh slice holding every key of the map exactly once (order unspecified)"] = true
	m := args[0].T
	n := f.sc.define("nkeys", "Int", ite(eq(m, "0"), "0", sel(ln, m)))
	p := f.allocObject(st, types.NewArray(sl.Elem(), 0), types.NewPointer(types.NewArray(sl.Elem(), 0)))
	ref := p.Fs[0].T
	hn := elemHeapPrefix(sl.Elem())
	hs := arraySort(2, "Int")
	row := f.sc.fresh("keys")
	f.sc.declare(row, "(Array Int Int)")
	f.setHeap(st, hn, hs, store(f.heap(st, hn, hs), ref, row))
	has := func(k string) string { return and(not(eq(m, "0")), sel(sel(dom, m), k)) }
	i, j, k := f.sc.fresh("i"), f.sc.fresh("j"), f.sc.fresh("k")
	// every element is a key
	f.fact(st, fmt.Sprintf("(forall ((%s Int)) (! (=> (and (<= 0 %s) (< %s %s)) %s) :pattern ((select %s %s))))", i, i, i, n, has(sel(row, i)), row, i))
	// no key twice
	f.fact(st, fmt.Sprintf("(forall ((%s Int) (%s Int)) (! (=> (and (<= 0 %s) (< %s %s) (< %s %s)) (not (= (select %s %s) (select %s %s)))) :pattern ((select %s %s) (select %s %s))))", i, j, i, i, j, j, n, row, i, row, j, row, i, row, j))
	// every key is an element: named witness function
	idx := f.sc.fresh("keyidx")
	f.sc.declareFun(idx, []string{"Int"}, "Int")
	f.fact(st, fmt.Sprintf("(forall ((%s Int)) (! (=> %s (and (<= 0 (%s %s)) (< (%s %s) %s) (= (select %s (%s %s)) %s))) :pattern ((select (select %s %s) %s))))", k, has(k), idx, k, idx, k, n, row, idx, k, k, dom, m, k))
	if lo, hi, ok := intRangeOf(sl.Elem()); ok {
		f.fact(st, fmt.Sprintf("(forall ((%s Int)) (! (and (<= %s (select %s %s)) (<= (select %s %s) %s)) :pattern ((select %s %s))))", i, numBig(lo), row, i, row, i, numBig(hi), row, i))
	}
	r := &Val{K: KSlice, Ty: x.Type(), Fs: []*Val{vInt(ref, nil), vInt("0", nil), vInt(n, nil), vInt(n, nil)}}
	r.Fs[2].Lo = big.NewInt(0)
	return r, true
}

func isByteType(t types.Type) bool {
	b, ok := t.Underlying().(*types.Basic)
	return ok && b.Kind() == types.Uint8
}

// binaryReadBytes models binary.Read(r, order, []byte): io.ReadFull.
func (f *FuncVC) binaryReadBytes(st *State, x *ssa.Call, args []*Val, di *ssa.MakeInterface) (*Val, bool) {
	rd := args[0]
	buf := f.val(st, di.X)
	if rd.K != KIface || buf.K != KSlice {
		return nil, false
	}
	f.usedAssumed["encoding/binary.Read(r, order, []byte): io.ReadFull - fills the slice with consecutive input bytes; io.EOF iff no byte could be read, io.ErrUnexpectedEOF on a short read"] = true
	f.oblige(st, "nil", f.srcAt(x.Pos()), not(eq(rd.Fs[0].T, "0")))
	pay := rd.Fs[1].T
	ih := "(Array Int Int)"
	file := sel(f.heap(st, "G:file", "(Array Int (Array Int Int))"), pay)
	fsize := sel(f.heap(st, "G:fsize", ih), pay)
	rpos0 := f.sc.define("rpos0", "Int", sel(f.heap(st, "G:rpos", ih), pay))
	faults0 := f.sc.define("faults0", "Int", sel(f.heap(st, "G:faults", ih), pay))
	err := f.freshTyped(st, x.Type(), "binread.err")
	okT := f.sc.define("binread.ok", "Bool", eq(err.Fs[0].T, "0"))
	nrpos := f.sc.fresh("rpos")
	f.sc.declare(nrpos, "Int")
	nfaults := f.sc.fresh("faults")
	f.sc.declare(nfaults, "Int")
	src := f.srcAt(x.Pos())
	f.applyMod(st, resolvedMod{kind: "ghost", heap: "G:rpos", obj: pay, text: "rpos(r)"}, src)
	f.applyMod(st, resolvedMod{kind: "ghost", heap: "G:faults", obj: pay, text: "faults(r)"}, src)
	f.applyMod(st, resolvedMod{kind: "elems", heap: "M:uint8", obj: buf.Fs[0].T, off: buf.Fs[1].T, ln: buf.Fs[2].T, text: "data[*]"}, src)
	f.setHeap(st, "G:rpos", ih, store(f.heap(st, "G:rpos", ih), pay, nrpos))
	f.setHeap(st, "G:faults", ih, store(f.heap(st, "G:faults", ih), pay, nfaults))
	eofV := f.globalByName("io.EOF", x.Type())
	ueofV := f.globalByName("io.ErrUnexpectedEOF", x.Type())
	isEOF := and(eq(err.Fs[0].T, eofV.Fs[0].T), eq(err.Fs[1].T, eofV.Fs[1].T))
	isUEOF := and(eq(err.Fs[0].T, ueofV.Fs[0].T), eq(err.Fs[1].T, ueofV.Fs[1].T))
	sz := buf.Fs[2].T
	f.fact(st, and(
		cmp(">=", nfaults, faults0),
		implies(sel(f.heap(st, "G:reliable", "(Array Int Bool)"), pay), eq(nfaults, faults0)),
		eq(and(not(okT), not(isEOF), not(isUEOF)), cmp(">", nfaults, faults0)),
		implies(okT, and(eq(nrpos, arith("+", rpos0, sz)), implies(cmp(">", sz, "0"), and(cmp(">=", rpos0, "0"), cmp("<=", arith("+", rpos0, sz), fsize))))),
		implies(isEOF, and(cmp(">=", rpos0, fsize), cmp(">", sz, "0"))),
		implies(isUEOF, cmp(">", arith("+", rpos0, sz), fsize)),
		implies(eq(nfaults, faults0), eq(okT, or(eq(sz, "0"), and(cmp(">=", rpos0, "0"), cmp("<=", arith("+", rpos0, sz), fsize))))),
	))
	// contents: applyMod havocked the elements; on success they are the file bytes
	hs := arraySort(2, "Int")
	row := sel(f.heap(st, "M:uint8", hs), buf.Fs[0].T)
	row = f.sc.nameConst("readbuf", "(Array Int Int)", row)
	q := f.sc.fresh("k")
	f.fact(st, implies(okT, fmt.Sprintf("(forall ((%s Int)) (! (=> (and (<= %s %s) (< %s (+ %s %s))) (= (select %s %s) (select %s (+ %s (- %s %s))))) :pattern ((select %s %s))))",
		q, buf.Fs[1].T, q, q, buf.Fs[1].T, sz, row, q, file, rpos0, q, buf.Fs[1].T, row, q)))
	return err, true
}

func (f *FuncVC) binaryRead(st *State, x *ssa.Call, args []*Val) (*Val, bool) {
	di, ok := x.Call.Args[2].(*ssa.MakeInterface)
	if !ok {
		return nil, false
	}
	// The model describes the reader by its ghost state (file, rpos).  A
	// reader that is an object of the verified code itself (*parser.Parser,
	// whose Read method changes its fields) does not fit: no model then, the
	// call is an unknown callee.
	if ri, ok := x.Call.Args[0].(*ssa.MakeInterface); ok {
		if pt, ok := ri.X.Type().(*types.Pointer); ok {
			if nt, ok := pt.Elem().(*types.Named); ok && nt.Obj().Pkg() != nil && strings.HasPrefix(nt.Obj().Pkg().Path(), modPath) {
				return nil, false
			}
		}
	}
	if sl, ok := di.X.Type().Underlying().(*types.Slice); ok && isByteType(sl.Elem()) {
		return f.binaryReadBytes(st, x, args, di)
	}
	pt, ok := di.X.Type().Underlying().(*types.Pointer)
	if !ok {
		return nil, false
	}
	sty, ok := pt.Elem().Underlying().(*types.Struct)
	if !ok {
		return nil, false
	}
	size, ok := binarySize(pt.Elem())
	if !ok {
		return nil, false
	}
	rd := args[0]
	obj := f.val(st, di.X)
	if rd.K != KIface || obj.K != KPtr || obj.P != nil || len(obj.Fs) != 0 {
		return nil, false
	}
	f.usedAssumed["encoding/binary.Read(r, BigEndian, *struct): fields are the big-endian values of consecutive input bytes in declaration order; io.EOF iff no byte could be read, io.ErrUnexpectedEOF on a short read"] = true
	f.oblige(st, "nil", f.srcAt(x.Pos()), not(eq(rd.Fs[0].T, "0")))
	pay := rd.Fs[1].T
	ih := "(Array Int Int)"
	file := sel(f.heap(st, "G:file", "(Array Int (Array Int Int))"), pay)
	rposH := f.heap(st, "G:rpos", ih)
	faultsH := f.heap(st, "G:faults", ih)
	fsize := sel(f.heap(st, "G:fsize", ih), pay)
	rpos0 := f.sc.define("rpos0", "Int", sel(rposH, pay))
	faults0 := sel(faultsH, pay)
	err := f.freshTyped(st, x.Type(), "binread.err")
	okT := f.sc.define("binread.ok", "Bool", eq(err.Fs[0].T, "0"))
	nrpos := f.sc.fresh("rpos")
	f.sc.declare(nrpos, "Int")
	nfaults := f.sc.fresh("faults")
	f.sc.declare(nfaults, "Int")
	faults0 = f.sc.define("faults0", "Int", faults0)
	src := f.srcAt(x.Pos())
	f.applyMod(st, resolvedMod{kind: "ghost", heap: "G:rpos", obj: pay, text: "rpos(r)"}, src)
	f.applyMod(st, resolvedMod{kind: "ghost", heap: "G:faults", obj: pay, text: "faults(r)"}, src)
	if f.con != nil && f.con.HasMod {
		f.frameCheck(st, &PtrInfo{Heap: structHeapPrefix(pt.Elem()), Base: []string{obj.T}})
	}
	f.setHeap(st, "G:rpos", ih, store(f.heap(st, "G:rpos", ih), pay, nrpos))
	f.setHeap(st, "G:faults", ih, store(f.heap(st, "G:faults", ih), pay, nfaults))
	eofV := f.globalByName("io.EOF", x.Type())
	ueofV := f.globalByName("io.ErrUnexpectedEOF", x.Type())
	isEOF := and(eq(err.Fs[0].T, eofV.Fs[0].T), eq(err.Fs[1].T, eofV.Fs[1].T))
	isUEOF := and(eq(err.Fs[0].T, ueofV.Fs[0].T), eq(err.Fs[1].T, ueofV.Fs[1].T))
	sz := num(size)
	f.fact(st, and(
		cmp(">=", nfaults, faults0),
		implies(sel(f.heap(st, "G:reliable", "(Array Int Bool)"), pay), eq(nfaults, faults0)),
		eq(and(not(okT), not(isEOF), not(isUEOF)), cmp(">", nfaults, faults0)),
		implies(okT, and(eq(nrpos, arith("+", rpos0, sz)), cmp(">=", rpos0, "0"), cmp("<=", arith("+", rpos0, sz), fsize))),
		implies(isEOF, cmp(">=", rpos0, fsize)),
		implies(isUEOF, cmp(">", arith("+", rpos0, sz), fsize)),
		implies(eq(nfaults, faults0), eq(okT, and(cmp(">=", rpos0, "0"), cmp("<=", arith("+", rpos0, sz), fsize)))),
	))
	// fields
	prefix := structHeapPrefix(pt.Elem())
	off := int64(0)
	for i := 0; i < sty.NumFields(); i++ {
		fld := sty.Field(i)
		n, _ := binarySize(fld.Type())
		ls := leavesOfType(fld.Type())
		hn := prefix + "." + fld.Name()
		switch u := fld.Type().Underlying().(type) {
		case *types.Basic:
			if len(ls) == 1 && ls[0].Sort == "Int" {
				v := "0"
				for k := int64(0); k < n; k++ {
					v = arith("+", arith("*", v, "256"), sel(file, arith("+", rpos0, num(off+k))))
				}
				if u.Info()&types.IsUnsigned == 0 {
					v = "(" + wrapName(u) + " " + v + ")"
				}
				fr := f.sc.fresh("fld")
				f.sc.declare(fr, "Int")
				if lo, hi, ok := intRange(u); ok {
					f.fact(st, and(cmp("<=", numBig(lo), fr), cmp("<=", fr, numBig(hi))))
				}
				h := f.heap(st, hn, ih)
				f.setHeap(st, hn, ih, store(h, obj.T, ite(okT, v, fr)))
			}
		case *types.Array:
			eb := basicOf(u.Elem())
			es, _ := binarySize(u.Elem())
			if eb != nil && len(ls) == 1 {
				as := "(Array Int (Array Int Int))"
				arr := f.sc.fresh("fldarr")
				f.sc.declare(arr, "(Array Int Int)")
				q := f.sc.fresh("k")
				v := "0"
				for k := int64(0); k < es; k++ {
					v = arith("+", arith("*", v, "256"), sel(file, "(+ "+rpos0+" "+num(off)+" (* "+num(es)+" "+q+") "+num(k)+")"))
				}
				if eb.Info()&types.IsUnsigned == 0 {
					v = "(" + wrapName(eb) + " " + v + ")"
				}
				f.fact(st, implies(okT, fmt.Sprintf("(forall ((%s Int)) (! (=> (and (<= 0 %s) (< %s %d)) (= (select %s %s) %s)) :pattern ((select %s %s))))", q, q, q, u.Len(), arr, q, v, arr, q)))
				if lo, hi, ok := intRange(eb); ok {
					f.fact(st, fmt.Sprintf("(forall ((%s Int)) (! (and (<= %s (select %s %s)) (<= (select %s %s) %s)) :pattern ((select %s %s))))", q, numBig(lo), arr, q, arr, q, numBig(hi), arr, q))
				}
				h := f.heap(st, hn, as)
				f.setHeap(st, hn, as, store(h, obj.T, arr))
			}
		default:
			// nested structs etc.: havoc the field leaves
			for _, l := range ls {
				hs := arraySort(1, l.Sort)
				h := f.heap(st, hn+l.Path, hs)
				fr := f.sc.fresh("fld")
				f.sc.declare(fr, l.Sort)
				f.setHeap(st, hn+l.Path, hs, store(h, obj.T, fr))
			}
		}
		off += n
	}
	return err, true
}
