package main

import (
	"go/types"
	"math/big"

	"golang.org/x/tools/go/ssa"
)

func mapHeapPrefix(t types.Type) string {
	return "P:" + typeKey(t.Underlying())
}

// keyTerm converts a map key value into a single SMT term and its sort.
func (f *FuncVC) keyTerm(k *Val, kt types.Type) (string, string, bool) {
	switch kindOf(kt) {
	case KInt:
		return k.T, "Int", true
	case KStr:
		return k.T, "Str", true
	case KBool:
		return k.T, "Bool", true
	case KStruct:
		// pack a struct of small integers injectively into one Int
		st := kt.Underlying().(*types.Struct)
		term := "0"
		for i := 0; i < st.NumFields(); i++ {
			b := basicOf(st.Field(i).Type())
			if b == nil {
				return f.opaqueKey(k, kt)
			}
			lo, hi, ok := intRange(b)
			if !ok || hi.BitLen() > 32 {
				return f.opaqueKey(k, kt)
			}
			width := new(big.Int).Add(new(big.Int).Sub(hi, lo), big.NewInt(1))
			term = arith("+", arith("*", term, width.String()), arith("-", k.Fs[i].T, numBig(lo)))
		}
		return term, "Int", true
	case KIface, KPtr, KArr, KFloat:
		return f.opaqueKey(k, kt)
	}
	return "", "", false
}

// opaqueKey maps a key of an arbitrary comparable type to an Int through an
// uninterpreted function of its leaves (not assumed injective: sound, weaker).
func (f *FuncVC) opaqueKey(k *Val, kt types.Type) (string, string, bool) {
	ls := leavesOfType(kt)
	ts, err := leafTerms(k)
	if err != nil || len(ts) != len(ls) || len(ls) == 0 {
		return "", "", false
	}
	var sorts []string
	for _, l := range ls {
		sorts = append(sorts, l.Sort)
	}
	fn := sym("key:" + typeKey(kt))
	f.sc.declareFun(fn, sorts, "Int")
	t := "(" + fn
	for _, x := range ts {
		t += " " + x
	}
	return t + ")", "Int", true
}

func (f *FuncVC) mapHeaps(st *State, m *Val, mt *types.Map) (dom, ln string, ksort string, ok bool) {
	prefix := mapHeapPrefix(mt)
	_, ksort, ok = f.keyTerm(zeroVal(mt.Key()), mt.Key())
	if !ok {
		f.unsup("map key type " + mt.Key().String())
		return "", "", "", false
	}
	dom = f.heap(st, prefix+".dom", "(Array Int (Array "+ksort+" Bool))")
	ln = f.heap(st, prefix+".len", "(Array Int Int)")
	return dom, ln, ksort, true
}

func (f *FuncVC) makeMap(st *State, x *ssa.MakeMap) *Val {
	mt := x.Type().Underlying().(*types.Map)
	id := f.alloc(st)
	prefix := mapHeapPrefix(mt)
	dom, ln, ksort, ok := f.mapHeaps(st, nil, mt)
	if ok {
		f.setHeap(st, prefix+".dom", "(Array Int (Array "+ksort+" Bool))", store(dom, id, "((as const (Array "+ksort+" Bool)) false)"))
		f.setHeap(st, prefix+".len", "(Array Int Int)", store(ln, id, "0"))
	}
	return &Val{K: KMap, Ty: x.Type(), T: id}
}

func (f *FuncVC) mapLen(st *State, m *Val) string {
	mt, ok := m.Ty.Underlying().(*types.Map)
	if !ok {
		f.unsup("len of non-map")
		return "0"
	}
	_, ln, _, ok := f.mapHeaps(st, m, mt)
	if !ok {
		return "0"
	}
	t := sel(ln, m.T)
	if !f.mentionsBound(m.T) && f.noFacts == 0 {
		// an empty map has no keys
		dom, _, ksort, _ := f.mapHeaps(st, m, mt)
		q := f.sc.fresh("k")
		f.fact(st, "(=> (= "+t+" 0) (forall (("+q+" "+ksort+")) (not (select (select "+dom+" "+m.T+") "+q+"))))")
	}
	if f.pure == 0 {
		t = f.sc.define("mlen", "Int", t)
		f.fact(st, and(cmp(">=", t, "0"), cmp("<=", t, maxElems), implies(eq(m.T, "0"), eq(t, "0"))))
	} else if !f.mentionsBound(t) && f.noFacts == 0 {
		f.fact(st, and(cmp(">=", t, "0"), cmp("<=", t, maxElems), implies(eq(m.T, "0"), eq(t, "0"))))
	}
	return t
}

func (f *FuncVC) mapHas(st *State, m *Val, k *Val, mt *types.Map) string {
	dom, _, _, ok := f.mapHeaps(st, m, mt)
	if !ok {
		return "false"
	}
	kt, _, _ := f.keyTerm(k, mt.Key())
	return and(not(eq(m.T, "0")), sel(sel(dom, m.T), kt))
}

// mapValue reads m[k] (zero value if absent).
func (f *FuncVC) mapValue(st *State, m *Val, k *Val, mt *types.Map) *Val {
	prefix := mapHeapPrefix(mt)
	kt, ksort, ok := f.keyTerm(k, mt.Key())
	if !ok {
		f.unsup("map key type " + mt.Key().String())
		return f.freshVal(mt.Elem(), "mval")
	}
	has := f.mapHas(st, m, k, mt)
	v := build(mt.Elem(), func(l Leaf) string {
		h := f.heap(st, prefix+".val"+l.Path, "(Array Int (Array "+ksort+" "+l.Sort+"))")
		return ite(has, sel(sel(h, m.T), kt), zeroLeaf(l))
	})
	return v
}

func (f *FuncVC) lookup(st *State, x *ssa.Lookup) *Val {
	m := f.val(st, x.X)
	k := f.val(st, x.Index)
	mt, ok := x.X.Type().Underlying().(*types.Map)
	if !ok {
		// string index
		if m.K == KStr {
			f.oblige(st, "index", f.srcAt(x.Pos()), and(cmp("<=", "0", k.T), cmp("<", k.T, "(gstr.len "+m.T+")")))
			t := f.sc.define("ch", "Int", "(gstr.at "+m.T+" "+k.T+")")
			f.fact(st, and(cmp("<=", "0", t), cmp("<=", t, "255")))
			return &Val{K: KInt, Ty: x.Type(), T: t, Lo: big.NewInt(0), Hi: big.NewInt(255)}
		}
		f.unsup("lookup on unsupported value")
		return f.freshTyped(st, x.Type(), "lookup")
	}
	v := f.mapValue(st, m, k, mt)
	f.nameAndRange(st, v, "mv")
	if x.CommaOk {
		return &Val{K: KTuple, Ty: x.Type(), Fs: []*Val{v, vBool(f.sc.define("mok", "Bool", f.mapHas(st, m, k, mt)))}}
	}
	return v
}

func (f *FuncVC) mapUpdate(st *State, x *ssa.MapUpdate) {
	m := f.val(st, x.Map)
	k := f.val(st, x.Key)
	v := f.val(st, x.Value)
	mt := x.Map.Type().Underlying().(*types.Map)
	prefix := mapHeapPrefix(mt)
	f.oblige(st, "nil", f.srcAt(x.Pos())+" (write to nil map)", not(eq(m.T, "0")))
	dom, ln, ksort, ok := f.mapHeaps(st, m, mt)
	if !ok {
		return
	}
	if f.con != nil && f.con.HasMod {
		f.frameCheck(st, &PtrInfo{Heap: prefix, Base: []string{m.T}})
	}
	kt, _, _ := f.keyTerm(k, mt.Key())
	had := sel(sel(dom, m.T), kt)
	f.setHeap(st, prefix+".len", "(Array Int Int)", store(ln, m.T, arith("+", sel(ln, m.T), ite(had, "0", "1"))))
	f.setHeap(st, prefix+".dom", "(Array Int (Array "+ksort+" Bool))", store(dom, m.T, store(sel(dom, m.T), kt, "true")))
	ls := leavesOfType(mt.Elem())
	ts, err := leafTerms(v)
	if err != nil || len(ts) != len(ls) {
		f.unsup("map value not materialisable")
		return
	}
	for i, l := range ls {
		hn := prefix + ".val" + l.Path
		hs := "(Array Int (Array " + ksort + " " + l.Sort + "))"
		h := f.heap(st, hn, hs)
		f.setHeap(st, hn, hs, store(h, m.T, store(sel(h, m.T), kt, ts[i])))
	}
}

func (f *FuncVC) mapDelete(st *State, m, k *Val, mt *types.Map) {
	prefix := mapHeapPrefix(mt)
	dom, ln, ksort, ok := f.mapHeaps(st, m, mt)
	if !ok {
		return
	}
	kt, _, _ := f.keyTerm(k, mt.Key())
	had := and(not(eq(m.T, "0")), sel(sel(dom, m.T), kt))
	f.setHeap(st, prefix+".len", "(Array Int Int)", store(ln, m.T, arith("-", sel(ln, m.T), ite(had, "1", "0"))))
	f.setHeap(st, prefix+".dom", "(Array Int (Array "+ksort+" Bool))", store(dom, m.T, store(sel(dom, m.T), kt, "false")))
}

// ---- range over maps: nondeterministic enumeration ----
// R:seen.<K>[m] is the set of keys already produced by the active iteration
// over map m, R:cnt[m] their number.  Next yields ok <=> cnt < len(m) and an
// arbitrary unseen key of the domain, so a proof holds for every order.

func (f *FuncVC) rangeInit(st *State, x *ssa.Range) *Val {
	m := f.val(st, x.X)
	mt, ok := x.X.Type().Underlying().(*types.Map)
	if !ok {
		// range over a string: an iterator object with a hidden counter; the
		// number of iterations (runes) is some n with 0 <= n <= len(s)
		if m.K != KStr {
			f.unsup("range over string")
			return &Val{K: KUnsupported, Ty: x.Type()}
		}
		id := f.alloc(st)
		n := f.sc.fresh("nrunes")
		f.sc.declare(n, "Int")
		f.fact(st, and(cmp("<=", "0", n), cmp("<=", n, "(gstr.len "+m.T+")")))
		f.setHeap(st, "R:slen", "(Array Int Int)", store(f.heap(st, "R:slen", "(Array Int Int)"), id, n))
		f.setHeap(st, "R:cnt", "(Array Int Int)", store(f.heap(st, "R:cnt", "(Array Int Int)"), id, "0"))
		return &Val{K: KInt, Ty: x.Type(), T: id, Why: "striter"}
	}
	_, _, ksort, ok := f.mapHeaps(st, m, mt)
	if !ok {
		return &Val{K: KUnsupported, Ty: x.Type()}
	}
	sn := "R:seen." + ksort
	ss := "(Array Int (Array " + ksort + " Bool))"
	f.setHeap(st, sn, ss, store(f.heap(st, sn, ss), m.T, "((as const (Array "+ksort+" Bool)) false)"))
	f.setHeap(st, "R:cnt", "(Array Int Int)", store(f.heap(st, "R:cnt", "(Array Int Int)"), m.T, "0"))
	return &Val{K: KMap, Ty: x.X.Type(), T: m.T, Why: "iter"}
}

func (f *FuncVC) rangeNext(st *State, x *ssa.Next) *Val {
	it := f.val(st, x.Iter)
	if it.K == KInt && it.Why == "striter" {
		// next rune of a string: ok <=> fewer than n runes produced; byte index
		// and rune are arbitrary values of their types (0 <= index, a valid rune)
		cnt := f.heap(st, "R:cnt", "(Array Int Int)")
		ln := f.heap(st, "R:slen", "(Array Int Int)")
		okT := f.sc.define("nxt.ok", "Bool", cmp("<", sel(cnt, it.T), sel(ln, it.T)))
		tup := x.Type().(*types.Tuple)
		k := f.freshTyped(st, tup.At(1).Type(), "nxt.k")
		v := f.freshTyped(st, tup.At(2).Type(), "nxt.r")
		f.fact(st, and(cmp("<=", "0", k.T), cmp("<=", "0", v.T), cmp("<=", v.T, "1114111")))
		f.setHeap(st, "R:cnt", "(Array Int Int)", ite(okT, store(cnt, it.T, arith("+", sel(cnt, it.T), "1")), cnt))
		return &Val{K: KTuple, Ty: x.Type(), Fs: []*Val{vBool(okT), k, v}}
	}
	if it.K != KMap {
		f.unsup("next on unsupported iterator")
		return f.freshTyped(st, x.Type(), "next")
	}
	mt := it.Ty.Underlying().(*types.Map)
	prefix := mapHeapPrefix(mt)
	dom, ln, ksort, _ := f.mapHeaps(st, it, mt)
	sn := "R:seen." + ksort
	ss := "(Array Int (Array " + ksort + " Bool))"
	seen := f.heap(st, sn, ss)
	cnt := f.heap(st, "R:cnt", "(Array Int Int)")
	okT := f.sc.define("nxt.ok", "Bool", and(not(eq(it.T, "0")), cmp("<", sel(cnt, it.T), sel(ln, it.T))))
	k := f.freshTyped(st, mt.Key(), "nxt.k")
	kt, _, _ := f.keyTerm(k, mt.Key())
	f.assume(st, implies(okT, and(sel(sel(dom, it.T), kt), not(sel(sel(seen, it.T), kt)))))
	// the iteration ends exactly when every key has been produced
	q := f.sc.fresh("k")
	f.assume(st, implies(not(okT), "(forall (("+q+" "+ksort+")) (! (=> (select (select "+dom+" "+it.T+") "+q+") (select (select "+seen+" "+it.T+") "+q+")) :pattern ((select (select "+seen+" "+it.T+") "+q+"))))"))
	f.setHeap(st, sn, ss, ite(okT, store(seen, it.T, store(sel(seen, it.T), kt, "true")), seen))
	f.setHeap(st, "R:cnt", "(Array Int Int)", ite(okT, store(cnt, it.T, arith("+", sel(cnt, it.T), "1")), cnt))
	v := build(mt.Elem(), func(l Leaf) string {
		h := f.heap(st, prefix+".val"+l.Path, "(Array Int (Array "+ksort+" "+l.Sort+"))")
		return sel(sel(h, it.T), kt)
	})
	f.nameAndRange(st, v, "nxt.v")
	return &Val{K: KTuple, Ty: x.Type(), Fs: []*Val{vBool(okT), k, v}}
}
