package main

import (
	"sync"
	"fmt"
	"go/ast"
	"go/constant"
	"go/token"
	"go/types"
	"math/big"
	"strconv"
	"strings"

	"golang.org/x/tools/go/ssa"
)

// Eval evaluates contract expressions over a symbolic state.
type Eval struct {
	quiet *bool // when set, evaluation errors set the flag instead of being reported (witness hints)
	f     *FuncVC
	st    *State            // state in which heap reads happen
	old   *State            // state for old(...)
	env   map[string]*Val   // parameters / results / let values
	oldEnv map[string]*Val  // entry values for old(x) of locals
	lets  map[string]ast.Expr
	bound map[string]*Val
	locals bool             // identifiers may resolve to local cells of f.fn
	pos   token.Pos         // scope position for local lookup
	pkg   *types.Package    // package for scope lookups
	inOld bool
	loop  *loopInfo
	shift map[string]string // bound variable -> slice offset chosen for re-indexing
	depth int
	errs  []string
	// polarity tracking for existential quantifiers: mode says whether the
	// clause is being assumed (1) or proved (2); neg/nopol give the polarity
	// of the current sub-expression inside the clause
	mode  int
	neg   bool
	nopol bool
	hints map[string][]string // exists-bound variable -> witness candidates (hint(k, e))
	curSt *State              // inside old(): the current state, for locals that are not live in the old state
}

const (
	modeAssume = 1
	modeProve  = 2
)

// assuming returns a copy of ev that evaluates a clause which is assumed.
func (ev *Eval) assuming() *Eval {
	c := ev.sub()
	c.mode = modeAssume
	return c
}

func (ev *Eval) flipped() *Eval {
	c := ev.sub()
	c.neg = !c.neg
	return c
}

func (ev *Eval) unpolar() *Eval {
	c := ev.sub()
	c.nopol = true
	return c
}

func (ev *Eval) fail(format string, args ...interface{}) {
	if ev.quiet != nil {
		*ev.quiet = true // a witness hint that cannot be evaluated here is dropped, not an error
		return
	}
	msg := fmt.Sprintf(format, args...)
	ev.errs = append(ev.errs, msg)
	ev.f.unsup("contract: " + msg)
}

func (f *FuncVC) baseEval(st *State) *Eval {
	ev := &Eval{f: f, st: st, old: f.entry, env: map[string]*Val{}, lets: map[string]ast.Expr{}, bound: map[string]*Val{}, pkg: f.fn.Pkg.Pkg}
	if f.con != nil {
		for _, l := range f.con.Lets {
			ev.lets[l.Name] = l.Expr
		}
		for _, a := range f.con.Anys {
			ev.env[a[0]] = f.anyVal(a[0], a[1])
		}
	}
	return ev
}

// anyVal returns the arbitrary-but-fixed constant declared by "any x T".
func (f *FuncVC) anyVal(name, ty string) *Val {
	if f.anys == nil {
		f.anys = map[string]*Val{}
	}
	if v, ok := f.anys[name]; ok {
		return v
	}
	c := f.sc.declare(sym("any."+name), "Int")
	v := &Val{K: KInt, T: c}
	if obj := types.Universe.Lookup(ty); obj != nil {
		v.Ty = obj.Type()
		if lo, hi, ok := intRangeOf(obj.Type()); ok {
			f.sc.assert(and(cmp("<=", numBig(lo), c), cmp("<=", c, numBig(hi))))
			v.Lo, v.Hi = lo, hi
		}
	} else {
		f.unsup("any " + name + ": type " + ty + " is not a basic integer type")
	}
	f.anys[name] = v
	return v
}

// entryEval: parameters have their entry values, heap is the entry heap.
func (f *FuncVC) entryEval(st *State) *Eval {
	ev := f.baseEval(f.entry)
	if f.entry == nil {
		ev.st = st
		ev.old = st
	}
	for k, v := range f.paramEntry {
		ev.env[k] = v
	}
	return ev
}

// postEval: parameters = entry values, results bound, heap = final state.
func (f *FuncVC) postEval(st *State, results []*Val) *Eval {
	ev := f.baseEval(st)
	for k, v := range f.paramEntry {
		ev.env[k] = v
	}
	for i, r := range results {
		if i < len(f.con.Results) {
			ev.env[f.con.Results[i]] = r
		}
	}
	return ev
}

// invEval: identifiers denote the current values of local variables.
func (f *FuncVC) invEval(st *State, li *loopInfo) *Eval {
	ev := f.baseEval(st)
	ev.locals = true
	ev.pos = li.stmt.Pos()
	if fs, ok := li.stmt.(*ast.ForStmt); ok {
		ev.pos = fs.Body.Lbrace + 1
	}
	if rs, ok := li.stmt.(*ast.RangeStmt); ok {
		ev.pos = rs.Body.Lbrace + 1
	}
	ev.oldEnv = f.paramEntry
	ev.loop = li
	return ev
}

func (ev *Eval) sub() *Eval {
	c := *ev
	return &c
}

func (ev *Eval) evalBool(e ast.Expr) string {
	ev.f.pure++
	defer func() { ev.f.pure-- }()
	v := ev.eval(e)
	if v == nil || v.K != KBool {
		ev.fail("expression %s is not boolean", exprString(e))
		return "false"
	}
	return v.T
}

func (ev *Eval) evalPure(e ast.Expr) *Val {
	ev.f.pure++
	defer func() { ev.f.pure-- }()
	return ev.eval(e)
}

var nilVal = &Val{K: KPtr, T: "0", Why: "nil"}

// nodeInfo records, for every contract AST node that was evaluated, the kind
// and Go type of its value; the replay generator uses it to render contract
// clauses as Go code with the conversions Go's type system asks for.
type nodeInfo struct {
	K  Kind
	Ty types.Type
}

var nodeTypes sync.Map // ast.Expr -> nodeInfo

func (ev *Eval) eval(e ast.Expr) *Val {
	v := ev.eval1(e)
	if v != nil {
		nodeTypes.Store(e, nodeInfo{v.K, v.Ty})
	}
	return v
}

func (ev *Eval) eval1(e ast.Expr) *Val {
	f := ev.f
	f.pure++
	defer func() { f.pure-- }()
	switch x := e.(type) {
	case *ast.ParenExpr:
		return ev.eval(x.X)
	case *ast.BasicLit:
		switch x.Kind {
		case token.INT:
			n, ok := new(big.Int).SetString(x.Value, 0)
			if !ok {
				ev.fail("bad integer %s", x.Value)
				return vInt("0", nil)
			}
			return &Val{K: KInt, T: numBig(n), Lo: n, Hi: n}
		case token.CHAR:
			r, _, _, err := strconv.UnquoteChar(x.Value[1:len(x.Value)-1], '\'')
			if err != nil {
				ev.fail("bad char %s", x.Value)
			}
			return vInt(num(int64(r)), nil)
		case token.STRING:
			s, err := strconv.Unquote(x.Value)
			if err != nil {
				ev.fail("bad string %s", x.Value)
			}
			return &Val{K: KStr, T: f.sc.strLit(f.strs, s), Ty: types.Typ[types.String]}
		}
		ev.fail("unsupported literal %s", x.Value)
		return vInt("0", nil)
	case *ast.Ident:
		return ev.ident(x)
	case *ast.UnaryExpr:
		if x.Op == token.NOT {
			return vBool(not(ev.flipped().evalBool(x.X)))
		}
		v := ev.eval(x.X)
		switch x.Op {
		case token.NOT:
			return vBool(not(v.T))
		case token.SUB:
			return vInt(arith("-", "0", v.T), nil)
		case token.ADD:
			return v
		}
	case *ast.BinaryExpr:
		return ev.binary(x)
	case *ast.SelectorExpr:
		return ev.selector(x)
	case *ast.IndexExpr:
		return ev.indexExpr(x)
	case *ast.SliceExpr:
		return ev.sliceExpr(x)
	case *ast.CallExpr:
		return ev.callExpr(x)
	case *ast.CompositeLit:
		// struct literal T{F: v, ...}
		if t := ev.resolveType(x.Type); t != nil {
			if st, ok := t.Underlying().(*types.Struct); ok {
				v := zeroVal(t)
				for i, el := range x.Elts {
					idx := i
					var ve ast.Expr = el
					if kv, ok := el.(*ast.KeyValueExpr); ok {
						ve = kv.Value
						idx = -1
						if id, ok := kv.Key.(*ast.Ident); ok {
							for k := 0; k < st.NumFields(); k++ {
								if st.Field(k).Name() == id.Name {
									idx = k
								}
							}
						}
					}
					if idx < 0 || idx >= st.NumFields() {
						ev.fail("bad field in composite literal %s", exprString(x))
						return v
					}
					fv := ev.eval(ve)
					c := *fv
					c.Ty = st.Field(idx).Type()
					v.Fs[idx] = &c
				}
				return v
			}
		}
	case *ast.TypeAssertExpr:
		v := ev.eval(x.X)
		tn := ev.typeName(x.Type)
		if v.K == KIface && tn != nil {
			return f.unbox(ev.st, v.Fs[1].T, tn)
		}
		if se, ok := x.Type.(*ast.StarExpr); ok && v.K == KIface {
			if tn := ev.typeName(se.X); tn != nil {
				return f.unbox(ev.st, v.Fs[1].T, types.NewPointer(tn))
			}
		}
	case *ast.StarExpr:
		p := ev.eval(x.X)
		if p.K == KPtr {
			if pt, ok := p.Ty.Underlying().(*types.Pointer); ok {
				return f.load(ev.st, p, pt.Elem())
			}
		}
	}
	ev.fail("unsupported expression %s (%T)", exprString(e), e)
	return vInt("0", nil)
}

func (ev *Eval) ident(x *ast.Ident) *Val {
	f := ev.f
	switch x.Name {
	case "true":
		return vBool("true")
	case "false":
		return vBool("false")
	case "nil":
		return nilVal
	}
	if v, ok := ev.bound[x.Name]; ok {
		return v
	}
	if ev.inOld && ev.oldEnv != nil {
		if v, ok := ev.oldEnv[x.Name]; ok {
			return v
		}
	}
	if v, ok := ev.env[x.Name]; ok {
		return v
	}
	if le, ok := ev.lets[x.Name]; ok {
		ev.depth++
		if ev.depth > 50 {
			ev.fail("let recursion")
			return vInt("0", nil)
		}
		v := ev.eval(le)
		ev.depth--
		return v
	}
	if ev.locals {
		if (x.Name == "rangeindex" || x.Name == "iter") && ev.loop != nil {
			if v := ev.rangeIndex(false); v != nil {
				if x.Name == "iter" {
					return vInt(arith("+", v.T, "1"), nil)
				}
				return v
			}
		}
		if (x.Name == "outerindex" || x.Name == "outeriter") && ev.loop != nil {
			// the range index of the nearest range-over-slice loop that strictly
			// encloses the loop of this invariant
			if v := ev.rangeIndex(true); v != nil {
				if x.Name == "outeriter" {
					return vInt(arith("+", v.T, "1"), nil)
				}
				return v
			}
		}
		if v := ev.localVar(x.Name); v != nil {
			return v
		}
	}
	// package scope
	if ev.pkg != nil {
		if obj := ev.pkg.Scope().Lookup(x.Name); obj != nil {
			return ev.object(obj)
		}
	}
	if obj := types.Universe.Lookup(x.Name); obj != nil {
		if c, ok := obj.(*types.Const); ok {
			return f.fromConstant(c.Val(), c.Type())
		}
	}
	ev.fail("unknown identifier %s", x.Name)
	return vInt("0", nil)
}

func (ev *Eval) object(obj types.Object) *Val {
	f := ev.f
	switch o := obj.(type) {
	case *types.Const:
		t := o.Type()
		if b, ok := t.(*types.Basic); ok && b.Info()&types.IsUntyped != 0 {
			switch {
			case b.Info()&types.IsInteger != 0:
				t = types.Typ[types.Int]
				iv := constant.ToInt(o.Val())
				n, _ := new(big.Int).SetString(iv.ExactString(), 10)
				return &Val{K: KInt, T: numBig(n), Lo: n, Hi: n}
			case b.Info()&types.IsString != 0:
				t = types.Typ[types.String]
			case b.Info()&types.IsBoolean != 0:
				t = types.Typ[types.Bool]
			case b.Info()&types.IsFloat != 0:
				t = types.Typ[types.Float64]
			}
		}
		v := f.fromConstant(o.Val(), t)
		return v
	case *types.Var:
		name := o.Pkg().Path() + "." + o.Name()
		return f.globalByName(name, o.Type())
	case *types.Func:
		// a package-level function as a value: its identity constant (the
		// same one the executor uses for the function constant)
		if o.Pkg() != nil {
			if sp := f.eng.ssaPkgs[o.Pkg().Path()]; sp != nil {
				if fn := sp.Func(o.Name()); fn != nil {
					id := sym("fnval:" + fn.String())
					if !f.sc.declared[id] {
						f.sc.declare(id, "Int")
						f.sc.assert(cmp("<", id, "0"))
					}
					return &Val{K: KFunc, Ty: o.Type(), Fn: &Closure{Fn: fn}, T: id}
				}
			}
		}
	}
	ev.fail("unsupported object %s", obj)
	return vInt("0", nil)
}

// rangeIndex returns the hidden index variable of a range-over-slice loop
// (-1 before the first iteration; "iter" = rangeindex+1 = completed iterations).
func (ev *Eval) rangeIndex(outer bool) *Val {
	// this loop, or else the innermost enclosing range-over-slice loop
	var best *loopInfo
	for _, li := range ev.f.loops {
		if !li.blocks[ev.loop.header] || !strings.HasPrefix(li.header.Comment, "rangeindex.loop") {
			continue
		}
		if outer && li == ev.loop {
			continue
		}
		if best == nil || len(li.blocks) < len(best.blocks) {
			best = li
		}
	}
	if best != nil {
		for _, ins := range best.header.Instrs {
			if u, ok := ins.(*ssa.UnOp); ok && u.Op == token.MUL {
				if a, ok := u.X.(*ssa.Alloc); ok && a.Comment == "rangeindex" {
					if c, ok := ev.st.cells[a]; ok {
						return c
					}
				}
			}
		}
	}
	ev.fail("loop has no range index")
	return nil
}

// localVar resolves a local variable name at ev.pos to its current value.
func (ev *Eval) localVar(name string) *Val {
	f := ev.f
	scope := f.fn.Pkg.Pkg.Scope().Innermost(ev.pos)
	if scope == nil {
		return nil
	}
	_, obj := scope.LookupParent(name, ev.pos)
	if obj == nil {
		return nil
	}
	v, ok := obj.(*types.Var)
	if !ok || v.Pkg() != f.fn.Pkg.Pkg || v.Parent() == f.fn.Pkg.Pkg.Scope() {
		return nil
	}
	var a *ssa.Alloc
	for _, cand := range f.declPos[v.Pos()] {
		// several allocs share a position for the implicit variables of a
		// type switch: take the one that is live in this state
		if f.isLocal(cand) {
			if _, live := ev.st.cells[cand]; live {
				a = cand
			}
		} else if _, live := f.regs[cand]; live && (ev.loop == nil || cand.Block().Dominates(ev.loop.header)) {
			a = cand
		}
		if a == nil && len(f.declPos[v.Pos()]) == 1 {
			a = cand
		}
	}
	if a == nil {
		// parameter that was never spilled?
		for _, p := range f.fn.Params {
			if p.Name() == name {
				return f.regs[p]
			}
		}
		return nil
	}
	if f.isLocal(a) {
		if c, ok := ev.st.cells[a]; ok {
			return c
		}
		if ev.curSt != nil {
			if c, ok := ev.curSt.cells[a]; ok {
				return c
			}
		}
		ev.fail("local %s not live here", name)
		return nil
	}
	p := f.regs[a]
	if p == nil {
		ev.fail("local %s not allocated here", name)
		return nil
	}
	return f.load(ev.st, p, a.Type().(*types.Pointer).Elem())
}

func (ev *Eval) binary(x *ast.BinaryExpr) *Val {
	f := ev.f
	switch x.Op {
	case token.LAND:
		return vBool(and(ev.evalBool(x.X), ev.evalBool(x.Y)))
	case token.LOR:
		return vBool(or(ev.evalBool(x.X), ev.evalBool(x.Y)))
	}
	un := ev.unpolar()
	a, b := un.eval(x.X), un.eval(x.Y)
	if a == nil || b == nil {
		return vBool("false")
	}
	switch x.Op {
	case token.EQL:
		return vBool(ev.equal(a, b))
	case token.NEQ:
		return vBool(not(ev.equal(a, b)))
	}
	if a.K == KFloat || b.K == KFloat {
		ev.fail("float arithmetic in contracts is not supported")
		return vBool("false")
	}
	if a.K == KStr && b.K == KStr && x.Op == token.ADD {
		return &Val{K: KStr, Ty: a.Ty, T: "(gstr.cat " + a.T + " " + b.T + ")"}
	}
	if a.K != KInt || b.K != KInt {
		ev.fail("operator %s on non-integers in %s", x.Op, exprString(x))
		return vBool("false")
	}
	switch x.Op {
	case token.LSS:
		return vBool(cmp("<", a.T, b.T))
	case token.LEQ:
		return vBool(cmp("<=", a.T, b.T))
	case token.GTR:
		return vBool(cmp(">", a.T, b.T))
	case token.GEQ:
		return vBool(cmp(">=", a.T, b.T))
	case token.ADD:
		return vInt(arith("+", a.T, b.T), nil)
	case token.SUB:
		return vInt(arith("-", a.T, b.T), nil)
	case token.MUL:
		return vInt(arith("*", a.T, b.T), nil)
	case token.QUO:
		if c, ok := litInt(b.T); ok && c.Sign() > 0 {
			// floor and truncated division agree for non-negative dividends; use
			// Go (truncated) semantics in general
			return vInt("(tdiv "+a.T+" "+b.T+")", nil)
		}
		return vInt("(tdiv "+a.T+" "+b.T+")", nil)
	case token.REM:
		return vInt("(tmod "+a.T+" "+b.T+")", nil)
	case token.SHL:
		if c, ok := litInt(b.T); ok && c.IsInt64() && c.Int64() >= 0 && c.Int64() < 256 {
			return vInt(arith("*", a.T, pow2(uint(c.Int64())).String()), nil)
		}
	case token.SHR:
		if c, ok := litInt(b.T); ok && c.IsInt64() && c.Int64() >= 0 && c.Int64() < 256 {
			return vInt("(div "+a.T+" "+pow2(uint(c.Int64())).String()+")", nil)
		}
	case token.AND:
		if c, ok := litInt(b.T); ok && c.Sign() >= 0 {
			return vInt(andConst(a.T, c), nil)
		}
		return vInt("(bit.and "+a.T+" "+b.T+")", nil)
	case token.OR:
		if c, ok := litInt(b.T); ok && c.Sign() >= 0 {
			return vInt("(- (+ "+a.T+" "+c.String()+") "+andConst(a.T, c)+")", nil)
		}
		return vInt("(bit.or "+a.T+" "+b.T+")", nil)
	}
	_ = f
	ev.fail("unsupported operator %s", x.Op)
	return vBool("false")
}

func (ev *Eval) equal(a, b *Val) string {
	if a.K == KSeq && b.K == KSeq {
		return eq(a.T, b.T)
	}
	if a.K == KArr && b.K == KArr {
		// contracts compare stored arrays as whole values (indices outside the
		// array length are unobservable)
		la, lb := leaves(a), leaves(b)
		if len(la) == len(lb) {
			var cs []string
			for i := range la {
				cs = append(cs, eq(la[i].T, lb[i].T))
			}
			return and(cs...)
		}
	}
	if (a.K == KStruct || a.K == KTuple) && a.K == b.K && len(a.Fs) == len(b.Fs) {
		var cs []string
		for i := range a.Fs {
			cs = append(cs, ev.equal(a.Fs[i], b.Fs[i]))
		}
		return and(cs...)
	}
	if a.K == KSlice && b.K == KSlice && !isNilVal(a) && !isNilVal(b) {
		// in contracts == on slices means "the same slice" (same backing array, window)
		return and(eq(a.Fs[0].T, b.Fs[0].T), eq(a.Fs[1].T, b.Fs[1].T), eq(a.Fs[2].T, b.Fs[2].T))
	}
	return ev.f.equal(ev.st, a, b)
}

func (ev *Eval) selector(x *ast.SelectorExpr) *Val {
	_ = ev.f
	// qualified identifier?
	if id, ok := x.X.(*ast.Ident); ok {
		if !ev.isValueIdent(id.Name) {
			if imp := ev.findImport(id.Name); imp != nil {
				obj := imp.Scope().Lookup(x.Sel.Name)
				if obj == nil {
					ev.fail("%s.%s not found", id.Name, x.Sel.Name)
					return vInt("0", nil)
				}
				return ev.object(obj)
			}
		}
	}
	v := ev.eval(x.X)
	if v == nil {
		return vInt("0", nil)
	}
	return ev.field(v, x.Sel.Name)
}

func (ev *Eval) isValueIdent(name string) bool {
	if _, ok := ev.bound[name]; ok {
		return true
	}
	if ev.inOld && ev.oldEnv != nil {
		if _, ok := ev.oldEnv[name]; ok {
			return true
		}
	}
	if _, ok := ev.env[name]; ok {
		return true
	}
	if _, ok := ev.lets[name]; ok {
		return true
	}
	if ev.locals {
		scope := ev.f.fn.Pkg.Pkg.Scope().Innermost(ev.pos)
		if scope != nil {
			if _, obj := scope.LookupParent(name, ev.pos); obj != nil {
				if v, ok := obj.(*types.Var); ok && v.Parent() != ev.f.fn.Pkg.Pkg.Scope() {
					return true
				}
			}
		}
	}
	return false
}

func (ev *Eval) findImport(name string) *types.Package {
	if ev.pkg == nil {
		return nil
	}
	if ev.pkg.Scope().Lookup(name) != nil {
		return nil
	}
	for _, p := range ev.pkg.Imports() {
		if p.Name() == name {
			return p
		}
	}
	// also search all packages known to the program (for assumed specs)
	for _, p := range ev.f.eng.allTypes {
		if p.Name() == name {
			return p
		}
	}
	return nil
}

func (ev *Eval) field(v *Val, name string) *Val {
	f := ev.f
	if v.Ty == nil {
		ev.fail("field %s of untyped value", name)
		return vInt("0", nil)
	}
	obj, index, _ := types.LookupFieldOrMethod(v.Ty, true, ev.pkgOf(v.Ty), name)
	fld, ok := obj.(*types.Var)
	if !ok || len(index) == 0 {
		ev.fail("no field %s in %s", name, v.Ty)
		return vInt("0", nil)
	}
	cur := v
	ty := v.Ty
	for _, ix := range index {
		// auto-deref
		if pt, ok := ty.Underlying().(*types.Pointer); ok {
			sty, ok := pt.Elem().Underlying().(*types.Struct)
			if !ok {
				ev.fail("field through non-struct pointer")
				return vInt("0", nil)
			}
			fv := sty.Field(ix)
			var loc PtrInfo
			if cur.P != nil {
				loc = *cur.P
				loc.Path = append(append([]PathElem(nil), cur.P.Path...), PathElem{Field: fv.Name()})
			} else if cur.K == KPtr && len(cur.Fs) == 0 {
				loc = PtrInfo{Heap: structHeapPrefix(pt.Elem()), Base: []string{cur.T}, Path: []PathElem{{Field: fv.Name()}}}
			} else {
				ev.fail("field through unsupported pointer")
				return vInt("0", nil)
			}
			loc.Ty = fv.Type()
			cur = f.load(ev.st, &Val{K: KPtr, Ty: types.NewPointer(fv.Type()), P: &loc}, fv.Type())
			ty = fv.Type()
			continue
		}
		sty, ok := ty.Underlying().(*types.Struct)
		if !ok || cur.K != KStruct {
			ev.fail("field of non-struct")
			return vInt("0", nil)
		}
		cur = cur.Fs[ix]
		ty = sty.Field(ix).Type()
	}
	_ = fld
	return cur
}

func (ev *Eval) pkgOf(t types.Type) *types.Package {
	if pt, ok := t.(*types.Pointer); ok {
		t = pt.Elem()
	}
	if n, ok := t.(*types.Named); ok && n.Obj().Pkg() != nil {
		return n.Obj().Pkg()
	}
	return ev.pkg
}

func (ev *Eval) indexExpr(x *ast.IndexExpr) *Val {
	f := ev.f
	b := ev.eval(x.X)
	i := ev.eval(x.Index)
	if b == nil || i == nil {
		return vInt("0", nil)
	}
	switch b.K {
	case KSlice:
		et := b.Ty.Underlying().(*types.Slice).Elem()
		if ev.shift != nil && b.Fs[1].T != "0" {
			if _, isB := ev.shift[i.T]; isB && ev.shift[i.T] == "" {
				ev.shift[i.T] = b.Fs[1].T
			}
		}
		loc := &PtrInfo{Heap: elemHeapPrefix(et), Base: []string{b.Fs[0].T, arith("+", b.Fs[1].T, i.T)}, Ty: et}
		return f.load(ev.st, &Val{K: KPtr, Ty: types.NewPointer(et), P: loc}, et)
	case KSeq:
		// a ghost sequence is a sequence of bytes
		el := &Val{K: KInt, T: sel(b.T, i.T), Ty: types.Typ[types.Uint8]}
		f.pureFacts(ev.st, el)
		return vInt(el.T, nil)
	case KStr:
		return vInt("(gstr.at "+b.T+" "+i.T+")", nil)
	case KArr:
		el := f.arrayIndex(b, i.T)
		// typing facts of the element (every heap array holds values of its element type)
		for _, l := range leaves(el) {
			f.pureFacts(ev.st, l)
		}
		return el
	case KMap:
		mt := b.Ty.Underlying().(*types.Map)
		mv := f.mapValue(ev.st, b, i, mt)
		// typing facts for the stored value (the raw select below the ite)
		for _, l := range leaves(mv) {
			if l.K == KInt && strings.HasPrefix(l.T, "(ite ") {
				// (ite COND THEN ELSE): the stored value is THEN
				c0 := len("(ite ")
				c1 := balancedEnd(l.T, c0)
				if c1+1 < len(l.T) {
					t1 := balancedEnd(l.T, c1+1)
					raw := l.T[c1+1 : t1]
					if strings.HasPrefix(raw, "(select (select ") {
						f.pureFacts(ev.st, &Val{K: KInt, T: raw, Ty: l.Ty})
					}
				}
			} else {
				f.pureFacts(ev.st, l)
			}
		}
		return mv
	}
	ev.fail("index of unsupported value %s", exprString(x.X))
	return vInt("0", nil)
}

func (ev *Eval) sliceExpr(x *ast.SliceExpr) *Val {
	b := ev.eval(x.X)
	if b == nil || b.K != KSlice {
		ev.fail("slice expression on non-slice")
		return vInt("0", nil)
	}
	lo := "0"
	if x.Low != nil {
		lo = ev.eval(x.Low).T
	}
	hi := b.Fs[2].T
	if x.High != nil {
		hi = ev.eval(x.High).T
	}
	r := &Val{K: KSlice, Ty: b.Ty}
	r.Fs = []*Val{b.Fs[0], vInt(arith("+", b.Fs[1].T, lo), nil), vInt(arith("-", hi, lo), nil), vInt(arith("-", b.Fs[3].T, lo), nil)}
	return r
}

func (ev *Eval) quantifier(kind string, fl *ast.FuncLit) *Val {
	f := ev.f
	sub := ev.sub()
	sub.bound = map[string]*Val{}
	for k, v := range ev.bound {
		sub.bound[k] = v
	}
	var decls []string
	var ranges []string
	// the re-indexing table is shared between nesting levels, so that an
	// access s[a] inside an inner quantifier re-indexes the outer variable a
	if ev.shift != nil {
		sub.shift = ev.shift
	} else {
		sub.shift = map[string]string{}
	}
	var bnames []string
	for _, p := range fl.Type.Params.List {
		ts := exprString(p.Type)
		for _, n := range p.Names {
			bn := f.sc.fresh(n.Name)
			var ty types.Type
			if obj := types.Universe.Lookup(ts); obj != nil {
				ty = obj.Type()
			}
			if ty != nil && kindOf(ty) == KStr {
				decls = append(decls, "("+bn+" Str)")
				sub.bound[n.Name] = &Val{K: KStr, T: bn, Ty: ty}
				sub.shift[bn] = ""
				bnames = append(bnames, bn)
				continue
			}
			if ty == nil || !isIntType(ty) {
				ev.fail("quantified variable %s must have an integer or string type", n.Name)
				ty = types.Typ[types.Int]
			}
			decls = append(decls, "("+bn+" Int)")
			sub.bound[n.Name] = &Val{K: KInt, T: bn}
			sub.shift[bn] = ""
			bnames = append(bnames, bn)
			if ts != "int" {
				if lo, hi, ok := intRangeOf(ty); ok {
					ranges = append(ranges, cmp("<=", numBig(lo), bn), cmp("<=", bn, numBig(hi)))
				}
			}
		}
	}
	if len(fl.Body.List) != 1 {
		ev.fail("quantifier body must be a single expression")
		return vBool("false")
	}
	ret, ok := fl.Body.List[0].(*ast.ReturnStmt)
	if !ok || len(ret.Results) != 1 {
		ev.fail("quantifier body must be a single expression")
		return vBool("false")
	}
	nb := len(f.boundActive)
	nbs := len(f.boundSorts)
	for len(f.boundSorts) < len(f.boundActive) {
		f.boundSorts = append(f.boundSorts, "")
	}
	nbs = len(f.boundSorts)
	f.boundActive = append(f.boundActive, bnames...)
	for _, bn := range bnames {
		srt := "Int"
		for _, d := range decls {
			if strings.HasPrefix(d, "("+bn+" ") {
				srt = strings.TrimSuffix(strings.TrimPrefix(d, "("+bn+" "), ")")
			}
		}
		f.boundSorts = append(f.boundSorts, srt)
	}
	f.qfacts = append(f.qfacts, nil)
	if kind == "exists" {
		sub.hints = map[string][]string{}
	}
	body := sub.evalBool(ret.Results[0])
	f.qfacts = f.qfacts[:len(f.qfacts)-1]
	// the enclosing universally bound variables (for skolem functions)
	var outer, outerSorts []string
	outerOK := true
	for i := 0; i < nb; i++ {
		if i < len(f.boundSorts) && f.boundSorts[i] != "" {
			outer = append(outer, f.boundActive[i])
			outerSorts = append(outerSorts, f.boundSorts[i])
		} else {
			outerOK = false // inside a spec definition with heap parameters
		}
	}
	f.boundActive = f.boundActive[:nb]
	f.boundSorts = f.boundSorts[:nbs]
	if kind == "exists" && len(bnames) == 1 && !ev.nopol && ev.mode != 0 && outerOK && strings.HasPrefix(decls[0], "("+bnames[0]+" Int)") {
		bn := bnames[0]
		hyp := (ev.mode == modeAssume) != ev.neg // the formula acts as a hypothesis
		app := func(fn string) string {
			if len(outer) == 0 {
				return fn
			}
			return "(" + fn + " " + strings.Join(outer, " ") + ")"
		}
		if f.skolems == nil {
			f.skolems = map[*ast.FuncLit]skolemInfo{}
		}
		if hyp {
			// skolemize by hand so that the witness has a name which a later
			// proof of the same clause can offer as a candidate
			sk := f.sc.fresh("sk." + bn)
			f.sc.declareFun(sk, outerSorts, "Int")
			f.skolems[fl] = skolemInfo{fn: sk, arity: len(outer)}
			w := app(sk)
			return vBool(replaceToken(and(append(append([]string{}, ranges...), body)...), bn, w))
		}
		// goal: offer the witness of the assumed instance and the hints
		var cands []string
		if si, ok := f.skolems[fl]; ok && si.arity == len(outer) {
			cands = append(cands, app(si.fn))
		}
		cands = append(cands, sub.hints[bn]...)
		if len(cands) > 0 {
			full := and(append(append([]string{}, ranges...), body)...)
			var ds []string
			for _, c := range cands {
				if strings.Contains(c, bn) {
					continue
				}
				ds = append(ds, replaceToken(full, bn, c))
			}
			ds = append(ds, "(exists ("+decls[0]+") "+full+")")
			return vBool(or(ds...))
		}
	}
	// re-index: forall i :: P(s[off+i])  ==>  forall j :: P'(s[j]) with i = j-off,
	// so that the array access itself can serve as the trigger.
	for _, bn := range bnames {
		off := sub.shift[bn]
		if off == "" || strings.Contains(off, bn) {
			continue
		}
		j := f.sc.fresh("j")
		repl := func(t string) string {
			t = strings.ReplaceAll(t, "(+ "+off+" "+bn+")", j)
			return replaceToken(t, bn, "(- "+j+" "+off+")")
		}
		body = repl(body)
		for i := range ranges {
			ranges[i] = repl(ranges[i])
		}
		for i := range decls {
			if decls[i] == "("+bn+" Int)" {
				decls[i] = "(" + j + " Int)"
			}
		}
	}
	q := "forall"
	if kind == "exists" {
		q = "exists"
		body = and(append(ranges, body)...)
	} else {
		body = implies(and(ranges...), body)
	}
	return vBool("(" + q + " (" + strings.Join(decls, " ") + ") " + body + ")")
}

func (ev *Eval) callExpr(x *ast.CallExpr) *Val {
	f := ev.f
	name := ""
	switch fn := x.Fun.(type) {
	case *ast.Ident:
		name = fn.Name
	case *ast.SelectorExpr:
		if id, ok := fn.X.(*ast.Ident); ok {
			name = id.Name + "." + fn.Sel.Name
		}
	case *ast.ArrayType:
		ev.fail("conversion to array/slice type not supported in contracts")
		return vInt("0", nil)
	}
	arg := func(i int) *Val {
		if i >= len(x.Args) {
			ev.fail("%s: missing argument", name)
			return vInt("0", nil)
		}
		return ev.eval(x.Args[i])
	}
	switch name {
	case "forall", "exists":
		if fl, ok := x.Args[0].(*ast.FuncLit); ok {
			return ev.quantifier(name, fl)
		}
	case "implies":
		return vBool(implies(ev.flipped().evalBool(x.Args[0]), ev.evalBool(x.Args[1])))
	case "hint":
		// hint(k, e): e is a witness candidate for the exists-bound variable k
		if id, ok := x.Args[0].(*ast.Ident); ok && len(x.Args) == 2 && ev.hints != nil {
			if bv, ok := ev.bound[id.Name]; ok {
				// a hint may mention a local that is not live at every place where
				// the clause is checked (e.g. the key of the current iteration, at
				// loop entry): such a candidate is simply not offered there
				failed := false
				sub := ev.sub()
				sub.quiet = &failed
				w := sub.eval(x.Args[1])
				if !failed && w != nil && w.K == KInt {
					ev.hints[bv.T] = append(ev.hints[bv.T], w.T)
				}
			}
		}
		return vBool("true")
	case "old":
		sub := ev.sub()
		sub.st = ev.old
		sub.inOld = true
		if !ev.inOld {
			sub.curSt = ev.st // locals that do not exist in the old state keep their current value
		}
		return sub.eval(x.Args[0])
	case "atentry":
		// atentry(e): the value of e when this loop was entered (loop
		// invariants only); lets an invariant relate a cell to its value
		// before the first iteration
		if ev.loop == nil || ev.loop.entryOld == nil {
			ev.fail("atentry() outside a loop invariant")
			return vInt("0", nil)
		}
		sub := ev.sub()
		sub.st = ev.loop.entryOld
		return sub.eval(x.Args[0])
	case "len":
		v := arg(0)
		switch v.K {
		case KSlice:
			return &Val{K: KInt, T: v.Fs[2].T, Ty: types.Typ[types.Int]}
		case KStr:
			return vInt("(gstr.len "+v.T+")", types.Typ[types.Int])
		case KMap:
			return vInt(f.mapLen(ev.st, v), types.Typ[types.Int])
		case KArr:
			return vInt(num(v.Ty.Underlying().(*types.Array).Len()), nil)
		}
		ev.fail("len of unsupported value")
		return vInt("0", nil)
	case "cap":
		v := arg(0)
		if v.K == KSlice {
			return vInt(v.Fs[3].T, types.Typ[types.Int])
		}
	case "min":
		return vInt("(imin "+arg(0).T+" "+arg(1).T+")", nil)
	case "max":
		return vInt("(imax "+arg(0).T+" "+arg(1).T+")", nil)
	case "pow2":
		v := arg(0)
		return vInt(f.pow2Term(ev.st, v), nil)
	case "abs":
		return vInt("(iabs "+arg(0).T+")", nil)
	case "ite":
		c := ev.unpolar().evalBool(x.Args[0])
		a, b := arg(1), arg(2)
		if a.K == KBool {
			return vBool(ite(c, a.T, b.T))
		}
		if a.K == KInt {
			return vInt(ite(c, a.T, b.T), a.Ty)
		}
		if a.K == KStr && b.K == KStr {
			// inline (a define-fun could capture a bound variable)
			return &Val{K: KStr, T: ite(c, a.T, b.T), Ty: a.Ty}
		}
		return f.mergeVals([]string{c, not(c)}, []*Val{a, b}, "ite")
	case "fresh":
		v := arg(0)
		return vBool(cmp(">=", objectID(v), f.wmEntryFor(ev)))
	case "isnil":
		return vBool(f.isNil(arg(0)))
	case "be16":
		s, i := arg(0), arg(1)
		at := func(k int64) string { return ev.byteAt(s, arith("+", i.T, num(k))) }
		return vInt("(+ (* 256 "+at(0)+") "+at(1)+")", nil)
	case "be32":
		s, i := arg(0), arg(1)
		at := func(k int64) string { return ev.byteAt(s, arith("+", i.T, num(k))) }
		return vInt("(+ (* 16777216 "+at(0)+") (* 65536 "+at(1)+") (* 256 "+at(2)+") "+at(3)+")", nil)
	case "is":
		v := arg(0)
		if v.K == KIface && len(x.Args) == 2 {
			if tn := ev.typeName(x.Args[1]); tn != nil {
				return vBool(eq(v.Fs[0].T, f.typeTag(tn)))
			}
			if se, ok := x.Args[1].(*ast.StarExpr); ok {
				if tn := ev.typeName(se.X); tn != nil {
					return vBool(eq(v.Fs[0].T, f.typeTag(types.NewPointer(tn))))
				}
			}
		}
	case "pre":
		// value of an expression when the loop was entered
		if ev.loop != nil && ev.loop.entryOld != nil {
			sub := ev.sub()
			sub.st = ev.loop.entryOld
			return sub.eval(x.Args[0])
		}
	case "ref":
		return vInt(objectID(arg(0)), nil)
	case "allocated":
		// allocated(x): the object x refers to exists in this state (its id is
		// below the allocation watermark); an invariant that states it at a loop
		// head keeps x distinct from everything allocated later
		return vBool(cmp("<", objectID(arg(0)), ev.st.wm))
	case "has":
		m, k := arg(0), arg(1)
		if mt, ok := m.Ty.Underlying().(*types.Map); ok && m.K == KMap {
			return vBool(f.mapHas(ev.st, m, k, mt))
		}
	case "oldhas", "oldat":
		// oldhas(m, k) / oldat(m, k): membership / value in the map m as it was
		// at function entry, for a key k computed in the current state
		m, k := arg(0), arg(1)
		if mt, ok := m.Ty.Underlying().(*types.Map); ok && m.K == KMap && ev.old != nil {
			if name == "oldhas" {
				return vBool(f.mapHas(ev.old, m, k, mt))
			}
			return f.mapValue(ev.old, m, k, mt)
		}
	case "nseen":
		m := arg(0)
		if m.K == KMap {
			return vInt(sel(f.heap(ev.st, "R:cnt", "(Array Int Int)"), m.T), nil)
		}
	case "seen":
		m, k := arg(0), arg(1)
		if mt, ok := m.Ty.Underlying().(*types.Map); ok && m.K == KMap {
			kt, ks, ok := f.keyTerm(k, mt.Key())
			if ok {
				return vBool(sel(sel(f.heap(ev.st, "R:seen."+ks, "(Array Int (Array "+ks+" Bool))"), m.T), kt))
			}
		}
	case "off":
		v := arg(0)
		if v.K == KSlice {
			return vInt(v.Fs[1].T, nil)
		}
	case "typeis":
		// typeis(x, "pkg.T"): dynamic type test by printed type name
		v := arg(0)
		if lit, ok := x.Args[1].(*ast.BasicLit); ok && v.K == KIface {
			s, _ := strconv.Unquote(lit.Value)
			return vBool(eq(v.Fs[0].T, f.typeTagByName(s)))
		}
	}
	// conversions
	if tn := ev.typeName(x.Fun); tn != nil && len(x.Args) == 1 {
		v := arg(0)
		if isIntType(tn) && v.K == KInt {
			lo, hi := bounds(v)
			if v.Ty == nil {
				lo, hi = nil, nil
				if n, ok := litInt(v.T); ok {
					lo, hi = n, n
				}
			}
			return f.wrapTo(v.T, lo, hi, tn)
		}
		c := copyVal(v)
		retype(c, tn)
		return c
	}
	// spec / pred / ghost (optionally qualified by package name)
	if k := strings.Index(name, "."); k >= 0 {
		for _, tp := range f.eng.allTypes {
			if tp.Name() == name[:k] {
				if sp, ok := f.eng.cs.Specs[tp.Path()+"."+name[k+1:]]; ok {
					return ev.specCall(sp, x)
				}
			}
		}
	}
	if sp := f.eng.lookupSpec(ev.pkg, name); sp != nil {
		return ev.specCall(sp, x)
	}
	ev.fail("unknown function %s in contract", exprString(x.Fun))
	return vInt("0", nil)
}

func (f *FuncVC) wmEntryFor(ev *Eval) string {
	if ev.old != nil {
		return ev.old.wm
	}
	return f.wmEntry
}

func (ev *Eval) byteAt(s *Val, idx string) string {
	f := ev.f
	switch s.K {
	case KSeq:
		return sel(s.T, idx)
	case KSlice:
		et := s.Ty.Underlying().(*types.Slice).Elem()
		return sel(f.elemRow(ev.st, elemHeapPrefix(et), arraySort(1, "Int"), s.Fs[0].T), arith("+", s.Fs[1].T, idx))
	case KStr:
		return "(gstr.at " + s.T + " " + idx + ")"
	}
	ev.fail("byte access on unsupported value")
	return "0"
}

func objectID(v *Val) string {
	switch v.K {
	case KPtr:
		if v.P != nil && len(v.P.Base) > 0 {
			return v.P.Base[0]
		}
		if len(v.Fs) == 2 {
			return v.Fs[0].T
		}
		return v.T
	case KSlice:
		return v.Fs[0].T
	case KIface:
		return v.Fs[1].T
	case KMap:
		return v.T
	}
	return "0"
}

// resolveType turns a type expression of the contract language into a Go type.
func (ev *Eval) resolveType(e ast.Expr) types.Type {
	switch x := e.(type) {
	case *ast.Ident, *ast.SelectorExpr:
		return ev.typeName(e)
	case *ast.StarExpr:
		if t := ev.resolveType(x.X); t != nil {
			return types.NewPointer(t)
		}
	case *ast.ArrayType:
		if x.Len == nil {
			if t := ev.resolveType(x.Elt); t != nil {
				return types.NewSlice(t)
			}
		}
	case *ast.MapType:
		k, v := ev.resolveType(x.Key), ev.resolveType(x.Value)
		if k != nil && v != nil {
			return types.NewMap(k, v)
		}
	case *ast.ParenExpr:
		return ev.resolveType(x.X)
	}
	return nil
}

func (ev *Eval) typeName(e ast.Expr) types.Type {
	switch x := e.(type) {
	case *ast.Ident:
		if _, ok := ev.bound[x.Name]; ok {
			return nil
		}
		if ev.pkg != nil {
			if obj, ok := ev.pkg.Scope().Lookup(x.Name).(*types.TypeName); ok {
				return obj.Type()
			}
		}
		if obj, ok := types.Universe.Lookup(x.Name).(*types.TypeName); ok {
			return obj.Type()
		}
	case *ast.SelectorExpr:
		if id, ok := x.X.(*ast.Ident); ok {
			if imp := ev.findImport(id.Name); imp != nil {
				if obj, ok := imp.Scope().Lookup(x.Sel.Name).(*types.TypeName); ok {
					return obj.Type()
				}
			}
		}
	}
	return nil
}

func (ev *Eval) specCall(sp *SpecFn, x *ast.CallExpr) *Val {
	f := ev.f
	if len(x.Args) != len(sp.Params) {
		ev.fail("%s: wrong number of arguments", sp.Name)
		return vInt("0", nil)
	}
	var args []*Val
	for _, a := range x.Args {
		args = append(args, ev.eval(a))
	}
	if sp.Ghost {
		if len(args) != 1 {
			ev.fail("ghost %s must have one parameter", sp.Name)
			return vInt("0", nil)
		}
		id := objectID(args[0])
		rs := "int"
		if sp.ResType != nil {
			rs = exprString(sp.ResType)
		}
		switch rs {
		case "bool":
			h := f.heap(ev.st, "G:"+sp.Name, "(Array Int Bool)")
			return vBool(sel(h, id))
		case "seq":
			h := f.heap(ev.st, "G:"+sp.Name, "(Array Int (Array Int Int))")
			return &Val{K: KSeq, T: sel(h, id)}
		default:
			h := f.heap(ev.st, "G:"+sp.Name, "(Array Int Int)")
			return vInt(sel(h, id), nil)
		}
	}
	if sp.Rec {
		return ev.recSpecCall(sp, args)
	}
	sub := ev.sub()
	sub.env = map[string]*Val{}
	sub.lets = map[string]ast.Expr{}
	sub.locals = false
	sub.bound = map[string]*Val{} // only the parameters are visible inside a spec body
	for i, p := range sp.Params {
		sub.env[p.Name] = args[i]
	}
	sub.pkg = f.eng.typesPkg(sp.PkgPath, ev.pkg)
	sub.depth = ev.depth + 1
	if sub.depth > 40 {
		ev.fail("spec recursion too deep in %s", sp.Name)
		return vInt("0", nil)
	}
	return sub.eval(sp.Body)
}

// recSpecCall: recursive spec functions are uninterpreted SMT functions over
// their integer/seq arguments; the defining equation is instantiated at every
// application that is evaluated (one unfolding).
func (ev *Eval) recSpecCall(sp *SpecFn, args []*Val) *Val {
	f := ev.f
	info := f.recSpecs[sp.Name]
	if info != nil && info.phaseA {
		return &Val{K: info.resKind, T: info.dummy}
	}
	if info != nil && info.phaseB {
		// recursive call inside the definition: limited-fuel synonym (no further unfolding)
		var terms []string
		for _, a := range args {
			ts, err := leafTerms(a)
			if err != nil {
				ev.fail("spec %s: argument not materialisable", sp.Name)
				return vInt("0", nil)
			}
			terms = append(terms, ts...)
		}
		terms = append(terms, ev.specHeapArgs(info, terms)...)
		return &Val{K: info.resKind, T: "(" + info.fn0 + " " + strings.Join(terms, " ") + ")"}
	}
	if info == nil {
		info = &recSpecInfo{resKind: KInt, dummy: "0", rs: "Int"}
		if sp.ResType != nil && exprString(sp.ResType) == "bool" {
			info.resKind, info.dummy, info.rs = KBool, "false", "Bool"
		}
		if sp.ResType != nil && exprString(sp.ResType) == "string" {
			info.resKind, info.dummy, info.rs = KStr, "gstr.empty", "Str"
		}
		f.recSpecs[sp.Name] = info
		pkg := f.eng.typesPkg(sp.PkgPath, ev.pkg)
		// bound parameters
		var decls []string
		var bnames []string
		params := map[string]*Val{}
		for _, p := range sp.Params {
			ts := exprString(p.Type)
			var v *Val
			gen := func(l Leaf) string {
				bn := f.sc.fresh(p.Name + l.Path)
				decls = append(decls, "("+bn+" "+l.Sort+")")
				bnames = append(bnames, bn)
				info.paramSorts = append(info.paramSorts, l.Sort)
				return bn
			}
			switch ts {
			case "seq":
				v = &Val{K: KSeq, T: gen(Leaf{Sort: "(Array Int Int)"})}
			case "int":
				v = &Val{K: KInt, T: gen(Leaf{Sort: "Int"})}
			case "bool":
				v = &Val{K: KBool, T: gen(Leaf{Sort: "Bool"})}
			default:
				sub := ev.sub()
				sub.pkg = pkg
				sub.bound = map[string]*Val{}
				pt := sub.resolveType(p.Type)
				if pt == nil {
					ev.fail("spec %s: cannot resolve parameter type %s", sp.Name, ts)
					return vInt("0", nil)
				}
				v = build(pt, gen)
			}
			params[p.Name] = v
		}
		mk := func(ss *State) *Eval {
			sub := ev.sub()
			sub.env = params
			sub.lets = map[string]ast.Expr{}
			sub.locals = false
			sub.bound = map[string]*Val{}
			sub.pkg = pkg
			sub.st, sub.old = ss, ss
			sub.inOld = false
			sub.shift = nil
			return sub
		}
		nb := len(f.boundActive)
		f.boundActive = append(f.boundActive, bnames...)
		noRow := map[string]bool{}
		baseDecls := append([]string(nil), decls...)
		var hb []string
		var body *Val
		for attempt := 0; ; attempt++ {
			decls = append([]string(nil), baseDecls...)
			info.heapBound = nil
			hb = nil
			// phase A: discover the heaps (and per-object rows) the body reads
			info.phaseA = true
			ssA := &State{cells: map[*ssa.Alloc]*Val{}, heaps: map[string]string{}, wm: "0", pc: "true", sym: &symHeaps{noRow: noRow}}
			mk(ssA).eval(sp.Body)
			info.phaseA = false
			info.heapNames = ssA.sym.names
			info.heapSorts = ssA.sym.sorts
			info.rows = ssA.sym.rows
			info.paramBound = bnames
			// phase B: the real definition (same bound names for heaps and rows)
			ssB := &State{cells: map[*ssa.Alloc]*Val{}, heaps: map[string]string{}, wm: "0", pc: "true", sym: &symHeaps{noRow: noRow}}
			for i, n := range info.heapNames {
				bn := ssA.heaps[n]
				ssB.heaps[n] = bn
				info.heapBound = append(info.heapBound, bn)
				hb = append(hb, bn)
				decls = append(decls, "("+bn+" "+info.heapSorts[i]+")")
			}
			ssB.sym.rows = append([]symRow(nil), info.rows...)
			var rowSorts []string
			for _, r := range info.rows {
				hb = append(hb, r.name)
				decls = append(decls, "("+r.name+" "+r.sort+")")
				rowSorts = append(rowSorts, r.sort)
			}
			allSorts := append(append(append([]string{}, info.paramSorts...), info.heapSorts...), rowSorts...)
			suffix := ""
			if attempt > 0 {
				suffix = fmt.Sprintf("~%d", attempt)
			}
			info.fn = sym("spec." + sp.Name + suffix)
			info.fn0 = sym("spec." + sp.Name + suffix + "$0")
			f.sc.declareFun(info.fn, allSorts, info.rs)
			f.sc.declareFun(info.fn0, allSorts, info.rs)
			info.phaseB = true
			body = mk(ssB).eval(sp.Body)
			info.phaseB = false
			if len(ssB.sym.names) == 0 && len(ssB.sym.rows) == len(info.rows) {
				break
			}
			// a recursive call needs a row that is not one of ours: pass those heaps whole
			for _, r := range ssB.sym.rows[len(info.rows):] {
				noRow[r.heap] = true
			}
			for _, n := range ssB.sym.names {
				_ = n
			}
			if attempt >= 3 {
				ev.fail("spec %s: heap set does not stabilise", sp.Name)
				break
			}
		}
		f.boundActive = f.boundActive[:nb]
		if len(f.boundSorts) > nb {
			f.boundSorts = f.boundSorts[:nb]
		}
		app := "(" + info.fn + " " + strings.Join(append(append([]string{}, bnames...), hb...), " ") + ")"
		f.sc.add("; definition of recursive spec " + sp.Name)
		f.sc.add(fmt.Sprintf("(assert (forall (%s) (! (= %s %s) :pattern (%s))))", strings.Join(decls, " "), app, body.T, app))
		app0 := "(" + info.fn0 + " " + strings.Join(append(append([]string{}, bnames...), hb...), " ") + ")"
		f.sc.add(fmt.Sprintf("(assert (forall (%s) (! (= %s %s) :pattern (%s))))", strings.Join(decls, " "), app, app0, app))
		f.usedAssumed["recursive spec function "+sp.Name+" is well-founded (by inspection)"] = true
	}
	var terms []string
	for _, a := range args {
		ts, err := leafTerms(a)
		if err != nil {
			ev.fail("spec %s: argument not materialisable", sp.Name)
			return vInt("0", nil)
		}
		terms = append(terms, ts...)
	}
	if len(terms) != len(info.paramSorts) {
		ev.fail("spec %s: argument shape mismatch (%d leaves, want %d)", sp.Name, len(terms), len(info.paramSorts))
		return vInt("0", nil)
	}
	terms = append(terms, ev.specHeapArgs(info, terms)...)
	t := "(" + info.fn + " " + strings.Join(terms, " ") + ")"
	return &Val{K: info.resKind, T: t}
}

// specHeapArgs returns the heap and row arguments of an application of a
// recursive spec function whose explicit argument terms are args.
func (ev *Eval) specHeapArgs(info *recSpecInfo, args []string) []string {
	f := ev.f
	var out []string
	var heaps []string
	for i, n := range info.heapNames {
		h := f.heap(ev.st, n, info.heapSorts[i])
		heaps = append(heaps, h)
		out = append(out, h)
	}
	for _, r := range info.rows {
		ref := r.ref
		for i, bn := range info.paramBound {
			if i < len(args) {
				ref = replaceToken(ref, bn, args[i])
			}
		}
		for i, bn := range info.heapBound {
			ref = replaceToken(ref, bn, heaps[i])
		}
		out = append(out, f.elemRow(ev.st, r.heap, r.sort, ref))
	}
	return out
}

type recSpecInfo struct {
	rows       []symRow
	paramBound []string
	heapBound  []string
	fn         string
	paramSorts []string
	heapNames  []string
	heapSorts  []string
	resKind    Kind
	rs         string
	dummy      string
	phaseA     bool
	phaseB     bool
	fn0        string
}

// resolveMods evaluates modifies targets to (heap, object) pairs.
func (f *FuncVC) resolveMods(ev *Eval, mods []ModTarget) []resolvedMod {
	var out []resolvedMod
	for _, m := range mods {
		switch m.Kind {
		case "all":
			out = append(out, resolvedMod{kind: "all", text: m.Text})
		case "alltype", "allelems":
			t := ev.resolveType(m.Expr)
			if t == nil {
				ev.fail("modifies %s: unknown type", m.Text)
				continue
			}
			if m.Kind == "alltype" {
				out = append(out, resolvedMod{kind: "heap", heap: structHeapPrefix(t), text: m.Text})
			} else {
				out = append(out, resolvedMod{kind: "heap", heap: elemHeapPrefix(t), text: m.Text})
			}
		case "fields":
			v := ev.evalPure(m.Expr)
			if v.K == KPtr && v.P != nil && len(v.P.Base) == 2 && len(v.P.Path) == 0 && v.P.Heap != "" {
				// pointer to an element of a slice of structs: that one element
				out = append(out, resolvedMod{kind: "elems", heap: v.P.Heap, obj: v.P.Base[0], off: v.P.Base[1], ln: "1", text: m.Text})
				continue
			}
			if v.K != KPtr || v.Ty == nil || !isStructPtr(v.Ty) {
				ev.fail("modifies %s: not a struct pointer", m.Text)
				continue
			}
			out = append(out, resolvedMod{kind: "fields", heap: structHeapPrefix(v.Ty.Underlying().(*types.Pointer).Elem()), obj: v.T, text: m.Text})
		case "field":
			se := m.Expr.(*ast.SelectorExpr)
			v := ev.evalPure(se.X)
			if v.K != KPtr || v.Ty == nil || !isStructPtr(v.Ty) {
				ev.fail("modifies %s: not a struct pointer", m.Text)
				continue
			}
			out = append(out, resolvedMod{kind: "field", heap: structHeapPrefix(v.Ty.Underlying().(*types.Pointer).Elem()), field: "." + se.Sel.Name, obj: v.T, text: m.Text})
		case "elems":
			v := ev.evalPure(m.Expr)
			if v.K == KMap && v.Ty != nil {
				out = append(out, resolvedMod{kind: "elems", heap: mapHeapPrefix(v.Ty), obj: v.T, text: m.Text})
				continue
			}
			if v.K == KPtr && v.Ty != nil {
				// pointer to an array: its elements
				if pt, ok := v.Ty.Underlying().(*types.Pointer); ok {
					if at, ok := pt.Elem().Underlying().(*types.Array); ok {
						if v.P == nil && len(v.Fs) == 2 {
							out = append(out, resolvedMod{kind: "elems", heap: elemHeapPrefix(at.Elem()), obj: v.Fs[0].T, off: v.Fs[1].T, ln: num(at.Len()), text: m.Text})
							continue
						}
						if v.P != nil && strings.HasPrefix(v.P.Heap, "H:") && len(v.P.Base) == 1 {
							if ps, nIdx := pathString(v.P.Path); nIdx == 0 && ps != "" {
								// an array field of a struct: that field
								out = append(out, resolvedMod{kind: "field", heap: v.P.Heap, field: ps, obj: v.P.Base[0], text: m.Text})
								continue
							}
						}
					}
				}
			}
			if v.K != KSlice {
				ev.fail("modifies %s: not a slice", m.Text)
				continue
			}
			out = append(out, resolvedMod{kind: "elems", heap: elemHeapPrefix(v.Ty.Underlying().(*types.Slice).Elem()), obj: v.Fs[0].T, off: v.Fs[1].T, ln: v.Fs[3].T, text: m.Text})
		case "ghost":
			ce := m.Expr.(*ast.CallExpr)
			id, _ := ce.Fun.(*ast.Ident)
			if id == nil || len(ce.Args) != 1 {
				ev.fail("modifies %s: bad ghost target", m.Text)
				continue
			}
			v := ev.evalPure(ce.Args[0])
			out = append(out, resolvedMod{kind: "ghost", heap: "G:" + id.Name, obj: objectID(v), text: m.Text})
		}
	}
	return out
}

var _ = ssa.NaiveForm

// replaceToken replaces whole-token occurrences of tok in the s-expression s.
func replaceToken(s, tok, repl string) string {
	var sb strings.Builder
	for i := 0; i < len(s); {
		if strings.HasPrefix(s[i:], tok) {
			end := i + len(tok)
			startOK := i == 0 || s[i-1] == ' ' || s[i-1] == '('
			endOK := end == len(s) || s[end] == ' ' || s[end] == ')'
			if startOK && endOK {
				sb.WriteString(repl)
				i = end
				continue
			}
		}
		sb.WriteByte(s[i])
		i++
	}
	return sb.String()
}

// Conj is one conjunct of a contract clause after expanding predicates.
type Conj struct {
	Label string
	Term  string
}

// evalConj evaluates a boolean expression into its conjuncts: top-level &&,
// non-recursive predicate calls and the right-hand side of ==> are split so
// that each conjunct becomes its own obligation.
func (ev *Eval) evalConj(e ast.Expr) []Conj {
	if ev.mode == 0 {
		// conjunct splitting is only used for clauses that are proved
		c := ev.sub()
		c.mode = modeProve
		return c.evalConj(e)
	}
	switch x := e.(type) {
	case *ast.ParenExpr:
		return ev.evalConj(x.X)
	case *ast.BinaryExpr:
		if x.Op == token.LAND {
			return append(ev.evalConj(x.X), ev.evalConj(x.Y)...)
		}
	case *ast.CallExpr:
		if id, ok := x.Fun.(*ast.Ident); ok {
			if id.Name == "implies" && len(x.Args) == 2 {
				a := ev.flipped().evalBool(x.Args[0])
				var out []Conj
				for _, c := range ev.evalConj(x.Args[1]) {
					out = append(out, Conj{exprString(x.Args[0]) + " ==> " + c.Label, implies(a, c.Term)})
				}
				return out
			}
			if sp := ev.f.eng.lookupSpec(ev.pkg, id.Name); sp != nil && !sp.Ghost && !sp.Rec && len(x.Args) == len(sp.Params) {
				ev.f.pure++
				var args []*Val
				for _, a := range x.Args {
					args = append(args, ev.eval(a))
				}
				ev.f.pure--
				sub := ev.sub()
				sub.env = map[string]*Val{}
				sub.lets = map[string]ast.Expr{}
				sub.locals = false
				sub.bound = map[string]*Val{}
				for i, p := range sp.Params {
					sub.env[p.Name] = args[i]
				}
				sub.pkg = ev.f.eng.typesPkg(sp.PkgPath, ev.pkg)
				sub.depth = ev.depth + 1
				if sub.depth > 40 {
					break
				}
				var out []Conj
				for _, c := range sub.evalConj(sp.Body) {
					out = append(out, Conj{exprString(e) + ": " + c.Label, c.Term})
				}
				return out
			}
		}
	}
	return []Conj{{exprString(e), ev.evalBool(e)}}
}

// scopeHas reports whether every free identifier of e resolves at ev.pos.
func (ev *Eval) scopeHas(e ast.Expr) bool {
	ok := true
	var walk func(n ast.Node, bound map[string]bool, inSel bool)
	walk = func(n ast.Node, bound map[string]bool, inSel bool) {
		switch x := n.(type) {
		case nil:
			return
		case *ast.SelectorExpr:
			// only the operand is a name to resolve; x.Sel is a field or method
			walk(x.X, bound, true)
		case *ast.FuncLit:
			// quantifier: its parameters are bound inside the body
			nb := map[string]bool{}
			for k := range bound {
				nb[k] = true
			}
			for _, p := range x.Type.Params.List {
				for _, n := range p.Names {
					nb[n.Name] = true
				}
			}
			ast.Inspect(x.Body, func(m ast.Node) bool {
				if ex, isEx := m.(ast.Expr); isEx {
					walk(ex, nb, false)
					return false
				}
				return true
			})
		case *ast.CallExpr:
			if _, isId := x.Fun.(*ast.Ident); !isId {
				walk(x.Fun, bound, false)
			}
			for _, a := range x.Args {
				walk(a, bound, false)
			}
		case *ast.Ident:
			if bound[x.Name] {
				return
			}
			if !ev.identKnown(x.Name) && !isContractBuiltin(x.Name) && ev.findImport(x.Name) == nil {
				ok = false
			}
			// a local variable that shadows a type of the package (v := f();
			// v.field) is not in scope here: the name resolves to the type
			if inSel && !ev.isValueIdent(x.Name) && ev.pkg != nil {
				if _, isType := ev.pkg.Scope().Lookup(x.Name).(*types.TypeName); isType {
					ok = false
				}
			}
		case ast.Expr:
			ast.Inspect(x, func(m ast.Node) bool {
				if m == n {
					return true
				}
				if ex, isEx := m.(ast.Expr); isEx {
					walk(ex, bound, inSel)
					return false
				}
				return true
			})
		}
	}
	walk(e, map[string]bool{}, false)
	return ok
}

func (ev *Eval) identKnown(name string) bool {
	switch name {
	case "true", "false", "nil", "iter", "rangeindex", "outeriter", "outerindex":
		return true
	}
	if ev.isValueIdent(name) {
		return true
	}
	if ev.pkg != nil && ev.pkg.Scope().Lookup(name) != nil {
		return true
	}
	return types.Universe.Lookup(name) != nil
}

func isContractBuiltin(name string) bool {
	switch name {
	case "forall", "exists", "implies", "old", "pre", "len", "cap", "min", "max", "abs", "ite", "hint", "atentry", "oldhas", "oldat", "allocated", "fresh", "isnil", "be16", "be32", "ref", "off", "has", "seen", "nseen", "is", "pow2", "typeis", "int", "bool", "string":
		return true
	}
	return false
}
