package main

import (
	"fmt"
	"go/types"
	"math/big"
	"strings"

	"golang.org/x/tools/go/ssa"
)

type Kind int

const (
	KInt Kind = iota
	KBool
	KFloat
	KStr
	KSlice  // Fs: ref off len cap
	KStruct // Fs: fields
	KPtr    // pointer to struct object: T = id ; pointer to non-struct: Fs: ref idx ; interior: P
	KIface  // Fs: tag payload
	KMap    // T = ref
	KArr    // Fs[0]: lifted element value (every leaf is an SMT array)
	KFunc   // T = id (opaque) or Fn != nil
	KTuple  // Fs: elements
	KSeq    // ghost sequence: T = (Array Int Int)
	KUnsupported
)

// PtrInfo describes a memory location: a local cell, a package variable, or
// a heap location (heap prefix + base indices), plus a field/index path.
type PtrInfo struct {
	Local  *ssa.Alloc  // pointer into a local cell
	Global *ssa.Global // pointer to a package level variable
	Heap   string      // heap prefix: "H:pkg.T" (Base = [id]) or "M:T" (Base = [ref idx])
	Base   []string
	Path   []PathElem
	Ty     types.Type // type of the content at this location
}

type PathElem struct {
	Field string // field name, or "" for an array index
	Index string // array index term
}

type Val struct {
	K  Kind
	T  string
	Fs []*Val
	Ty types.Type
	P  *PtrInfo
	Fn *Closure
	// interval knowledge for KInt (nil = unknown)
	Lo, Hi  *big.Int
	Bytes   []string // little-endian byte constants b with value == sum b[i]*256^i (nil: none)
	Mask    *big.Int // bits that may be set (nil: unknown); only for non-negative values
	LowZero uint // number of low bits known to be zero
	Why     string
}

type Closure struct {
	Fn       *ssa.Function
	Bindings []*Val
}

func vInt(t string, ty types.Type) *Val { return &Val{K: KInt, T: t, Ty: ty} }
func vBool(t string) *Val               { return &Val{K: KBool, T: t, Ty: types.Typ[types.Bool]} }

func (v *Val) String() string {
	switch v.K {
	case KInt, KBool, KFloat, KStr, KMap, KSeq:
		return v.T
	case KPtr:
		if v.P != nil {
			return fmt.Sprintf("ptr%+v", *v.P)
		}
		if len(v.Fs) == 2 {
			return fmt.Sprintf("ptr(%s,%s)", v.Fs[0].T, v.Fs[1].T)
		}
		return "ptr(" + v.T + ")"
	}
	var parts []string
	for _, f := range v.Fs {
		parts = append(parts, f.String())
	}
	return fmt.Sprintf("k%d{%s}", v.K, strings.Join(parts, ","))
}

// ---------------------------------------------------------------------------

func isStructPtr(t types.Type) bool {
	p, ok := t.Underlying().(*types.Pointer)
	if !ok {
		return false
	}
	_, ok = p.Elem().Underlying().(*types.Struct)
	return ok
}

func intRange(b *types.Basic) (lo, hi *big.Int, ok bool) {
	var bits uint
	signed := true
	switch b.Kind() {
	case types.Int8:
		bits = 8
	case types.Int16:
		bits = 16
	case types.Int32:
		bits = 32
	case types.Int64, types.Int:
		bits = 64
	case types.Uint8:
		bits, signed = 8, false
	case types.Uint16:
		bits, signed = 16, false
	case types.Uint32:
		bits, signed = 32, false
	case types.Uint64, types.Uint, types.Uintptr:
		bits, signed = 64, false
	case types.UntypedInt, types.UntypedRune:
		return nil, nil, false
	default:
		return nil, nil, false
	}
	if signed {
		h := pow2(bits - 1)
		return new(big.Int).Neg(h), new(big.Int).Sub(h, big.NewInt(1)), true
	}
	return big.NewInt(0), new(big.Int).Sub(pow2(bits), big.NewInt(1)), true
}

func wrapName(b *types.Basic) string {
	switch b.Kind() {
	case types.Int8:
		return "wrap_s8"
	case types.Int16:
		return "wrap_s16"
	case types.Int32:
		return "wrap_s32"
	case types.Int64, types.Int:
		return "wrap_s64"
	case types.Uint8:
		return "wrap_u8"
	case types.Uint16:
		return "wrap_u16"
	case types.Uint32:
		return "wrap_u32"
	case types.Uint64, types.Uint, types.Uintptr:
		return "wrap_u64"
	}
	return ""
}

func basicOf(t types.Type) *types.Basic {
	if t == nil {
		return nil
	}
	b, _ := t.Underlying().(*types.Basic)
	return b
}

func isIntType(t types.Type) bool {
	b := basicOf(t)
	return b != nil && b.Info()&types.IsInteger != 0
}

func isUnsigned(t types.Type) bool {
	b := basicOf(t)
	return b != nil && b.Info()&types.IsUnsigned != 0
}

// kindOf maps a Go type to the Val kind used for it.
func kindOf(t types.Type) Kind {
	switch u := t.Underlying().(type) {
	case *types.Basic:
		switch {
		case u.Info()&types.IsInteger != 0:
			return KInt
		case u.Info()&types.IsBoolean != 0:
			return KBool
		case u.Info()&types.IsFloat != 0:
			return KFloat
		case u.Info()&types.IsString != 0:
			return KStr
		case u.Kind() == types.UntypedNil:
			return KPtr
		}
		return KUnsupported
	case *types.Pointer:
		return KPtr
	case *types.Slice:
		return KSlice
	case *types.Struct:
		return KStruct
	case *types.Array:
		return KArr
	case *types.Map:
		return KMap
	case *types.Interface:
		return KIface
	case *types.Signature:
		return KFunc
	case *types.Tuple:
		return KTuple
	}
	return KUnsupported
}

// Leaf describes one scalar component of a flattened value.
type Leaf struct {
	Path string // e.g. ".ref" or ".X.Y"
	Sort string
	Ty   types.Type // type of the leaf if it is a Go scalar (for range assumptions)
	Ptr  bool       // the leaf holds a pointer to a struct object (an object id)
}

func sortOfKind(k Kind) string {
	switch k {
	case KInt, KMap, KPtr, KFunc:
		return "Int"
	case KBool:
		return "Bool"
	case KFloat:
		return "Flt"
	case KStr:
		return "Str"
	case KSeq:
		return "(Array Int Int)"
	}
	return "Int"
}

// leavesOfType lists the leaves of a value of type t in canonical order.
func leavesOfType(t types.Type) []Leaf {
	var out []Leaf
	var walk func(t types.Type, path string, lift int)
	lifted := func(s string, lift int) string {
		for i := 0; i < lift; i++ {
			s = "(Array Int " + s + ")"
		}
		return s
	}
	walk = func(t types.Type, path string, lift int) {
		switch u := t.Underlying().(type) {
		case *types.Struct:
			for i := 0; i < u.NumFields(); i++ {
				walk(u.Field(i).Type(), path+"."+u.Field(i).Name(), lift)
			}
		case *types.Slice:
			for _, c := range []string{"ref", "off", "len", "cap"} {
				out = append(out, Leaf{path + "." + c, lifted("Int", lift), nil, false})
			}
		case *types.Interface:
			out = append(out, Leaf{path + ".tag", lifted("Int", lift), nil, false})
			out = append(out, Leaf{path + ".pay", lifted("Int", lift), nil, false})
		case *types.Pointer:
			if isStructPtr(t) {
				out = append(out, Leaf{path, lifted("Int", lift), nil, true})
			} else {
				out = append(out, Leaf{path + ".ref", lifted("Int", lift), nil, false})
				out = append(out, Leaf{path + ".idx", lifted("Int", lift), nil, false})
			}
		case *types.Array:
			walk(u.Elem(), path, lift+1)
		case *types.Tuple:
			for i := 0; i < u.Len(); i++ {
				walk(u.At(i).Type(), fmt.Sprintf("%s.%d", path, i), lift)
			}
		default:
			var lt types.Type
			if lift == 0 {
				lt = t
			}
			out = append(out, Leaf{path, lifted(sortOfKind(kindOf(t)), lift), lt, false})
		}
	}
	walk(t, "", 0)
	return out
}

// build constructs a Val of type t from leaf terms produced by gen (called
// once per leaf in canonical order).
func build(t types.Type, gen func(l Leaf) string) *Val {
	var walk func(t types.Type, path string, lift int) *Val
	lifted := func(s string, lift int) string {
		for i := 0; i < lift; i++ {
			s = "(Array Int " + s + ")"
		}
		return s
	}
	walk = func(t types.Type, path string, lift int) *Val {
		switch u := t.Underlying().(type) {
		case *types.Struct:
			v := &Val{K: KStruct, Ty: t}
			for i := 0; i < u.NumFields(); i++ {
				v.Fs = append(v.Fs, walk(u.Field(i).Type(), path+"."+u.Field(i).Name(), lift))
			}
			return v
		case *types.Slice:
			v := &Val{K: KSlice, Ty: t}
			for _, c := range []string{"ref", "off", "len", "cap"} {
				v.Fs = append(v.Fs, vInt(gen(Leaf{path + "." + c, lifted("Int", lift), nil, false}), nil))
			}
			return v
		case *types.Interface:
			v := &Val{K: KIface, Ty: t}
			v.Fs = append(v.Fs, vInt(gen(Leaf{path + ".tag", lifted("Int", lift), nil, false}), nil))
			v.Fs = append(v.Fs, vInt(gen(Leaf{path + ".pay", lifted("Int", lift), nil, false}), nil))
			return v
		case *types.Pointer:
			if isStructPtr(t) {
				return &Val{K: KPtr, Ty: t, T: gen(Leaf{path, lifted("Int", lift), nil, true})}
			}
			v := &Val{K: KPtr, Ty: t}
			v.Fs = append(v.Fs, vInt(gen(Leaf{path + ".ref", lifted("Int", lift), nil, false}), nil))
			v.Fs = append(v.Fs, vInt(gen(Leaf{path + ".idx", lifted("Int", lift), nil, false}), nil))
			return v
		case *types.Array:
			return &Val{K: KArr, Ty: t, Fs: []*Val{walk(u.Elem(), path, lift+1)}}
		case *types.Tuple:
			v := &Val{K: KTuple, Ty: t}
			for i := 0; i < u.Len(); i++ {
				v.Fs = append(v.Fs, walk(u.At(i).Type(), fmt.Sprintf("%s.%d", path, i), lift))
			}
			return v
		default:
			k := kindOf(t)
			var lt types.Type
			if lift == 0 {
				lt = t
			}
			return &Val{K: k, Ty: t, T: gen(Leaf{path, lifted(sortOfKind(k), lift), lt, false})}
		}
	}
	return walk(t, "", 0)
}

// leaves returns the scalar leaf Vals of v in canonical order.
func leaves(v *Val) []*Val {
	var out []*Val
	var walk func(v *Val)
	walk = func(v *Val) {
		switch v.K {
		case KSlice, KStruct, KIface, KTuple, KArr:
			for _, f := range v.Fs {
				walk(f)
			}
		case KPtr:
			if len(v.Fs) == 2 {
				walk(v.Fs[0])
				walk(v.Fs[1])
			} else {
				out = append(out, v)
			}
		default:
			out = append(out, v)
		}
	}
	walk(v)
	return out
}

// leafTerms returns the SMT terms of the leaves, or an error if the value
// contains a Go-side-only component (interior pointer, closure).
func leafTerms(v *Val) ([]string, error) {
	var out []string
	for _, l := range leaves(v) {
		if l.K == KPtr && l.P != nil {
			return nil, fmt.Errorf("interior pointer cannot be materialised")
		}
		if l.K == KFunc && l.T == "" {
			return nil, fmt.Errorf("closure value cannot be materialised")
		}
		if l.K == KUnsupported {
			return nil, fmt.Errorf("unsupported value kind")
		}
		out = append(out, l.T)
	}
	return out, nil
}

func zeroLeaf(l Leaf) string {
	s := l.Sort
	depth := 0
	for strings.HasPrefix(s, "(Array Int ") {
		s = s[len("(Array Int ") : len(s)-1]
		depth++
	}
	var z string
	switch s {
	case "Int":
		z = "0"
	case "Bool":
		z = "false"
	case "Flt":
		z = "flt.zero"
	case "Str":
		z = "gstr.empty"
	default:
		z = "0"
	}
	if (s == "Str" || s == "Flt") && depth >= 1 && depth <= 2 {
		// cvc5 accepts only values in constant arrays
		return fmt.Sprintf("zarr%d.%s", depth, s)
	}
	cur := s
	for i := 0; i < depth; i++ {
		cur = "(Array Int " + cur + ")"
		z = "((as const " + cur + ") " + z + ")"
	}
	return z
}

func zeroVal(t types.Type) *Val {
	v := build(t, zeroLeaf)
	for _, l := range leaves(v) {
		if l.K == KInt && l.T == "0" {
			l.Lo, l.Hi = big.NewInt(0), big.NewInt(0)
		}
	}
	return v
}

// copyVal makes a deep copy (Vals are treated as immutable, but cells are
// updated functionally through setPath which copies along the path).
func copyVal(v *Val) *Val {
	c := *v
	if v.Fs != nil {
		c.Fs = make([]*Val, len(v.Fs))
		for i, f := range v.Fs {
			c.Fs[i] = copyVal(f)
		}
	}
	return &c
}

func typeKey(t types.Type) string {
	return types.TypeString(t, func(p *types.Package) string {
		if p == nil {
			return ""
		}
		path := p.Path()
		path = strings.TrimPrefix(path, "seehuhn.de/go/sfnt/")
		return path
	})
}

// structHeapPrefix returns the heap-name prefix for fields of struct type t.
func structHeapPrefix(t types.Type) string {
	if p, ok := t.Underlying().(*types.Pointer); ok && !isNamed(t) {
		t = p.Elem()
	}
	return "H:" + typeKey(t)
}

func isNamed(t types.Type) bool {
	_, ok := t.(*types.Named)
	return ok
}

func elemHeapPrefix(t types.Type) string {
	// normalise byte/uint8 and rune/int32
	if b, ok := t.(*types.Basic); ok {
		switch b.Kind() {
		case types.Uint8:
			return "M:uint8"
		case types.Int32:
			return "M:int32"
		}
	}
	return "M:" + typeKey(t)
}
