package main

import (
	"sync"
	"bytes"
	"fmt"
	"go/ast"
	"go/printer"
	"go/token"
	"go/types"
	"os"
	"sort"
	"strings"

	"golang.org/x/tools/go/ast/astutil"
	"golang.org/x/tools/go/packages"
	"golang.org/x/tools/go/ssa"
	"golang.org/x/tools/go/ssa/ssautil"
)

type astExpr = ast.Expr

const modPath = "seehuhn.de/go/sfnt"

type Engine struct {
	repo     string
	fset     *token.FileSet
	pkgs     []*packages.Package
	prog     *ssa.Program
	ssaPkgs  map[string]*ssa.Package
	typePkgs map[string]*types.Package
	allTypes []*types.Package
	cs       *ContractSet
	byFunc   map[*types.Func]*Contract
	unbound  []string // contracts that no longer bind (STALE-CONTRACT)
	files    map[string]*ast.File
	loadSecs float64
	fieldFuncs map[string]*Contract
	funcTypes  map[string]*Contract
	lines    map[string][]string
	mu       sync.Mutex
	ptrHeaps map[string]bool // heap names (without the 2-char kind prefix) whose values are struct pointers
	ptrOnce  sync.Once
}

// isPtrHeap reports whether the heap with this name stores pointers to struct
// objects: a pointer-typed field of a named struct type, or the element heap of
// a pointer type.
func (e *Engine) isPtrHeap(name string) bool {
	e.ptrOnce.Do(func() {
		e.ptrHeaps = map[string]bool{}
		for _, tp := range e.allTypes {
			sc := tp.Scope()
			for _, n := range sc.Names() {
				tn, ok := sc.Lookup(n).(*types.TypeName)
				if !ok || tn.IsAlias() {
					continue
				}
				if _, isStruct := tn.Type().Underlying().(*types.Struct); !isStruct {
					continue
				}
				if nt, isN := tn.Type().(*types.Named); isN && nt.TypeParams().Len() > 0 {
					continue
				}
				key := typeKey(tn.Type())
				e.ptrHeaps["*"+key] = true
				build(tn.Type(), func(l Leaf) string {
					if l.Ptr {
						e.ptrHeaps[key+l.Path] = true
					}
					return ""
				})
			}
		}
	})
	if len(name) < 3 || (name[:2] != "H:" && name[:2] != "M:") {
		return false
	}
	return e.ptrHeaps[name[2:]]
}

func loadEngine(repo, assumedDir string, overlay map[string][]byte) (*Engine, error) {
	eng := &Engine{repo: repo, fset: token.NewFileSet(), ssaPkgs: map[string]*ssa.Package{}, typePkgs: map[string]*types.Package{}, byFunc: map[*types.Func]*Contract{}, files: map[string]*ast.File{}}
	cfg := &packages.Config{
		Mode:       packages.LoadSyntax | packages.NeedDeps | packages.NeedImports,
		Dir:        repo,
		Fset:       eng.fset,
		BuildFlags: []string{"-tags=verif"},
		Env:        append(os.Environ(), "GOFLAGS=-mod=mod", "GOPROXY=off", "GOSUMDB=off", "GOTOOLCHAIN=local"),
		Overlay:    overlay,
	}
	pkgs, err := packages.Load(cfg, "./...")
	if err != nil {
		return nil, err
	}
	var errs []string
	packages.Visit(pkgs, nil, func(p *packages.Package) {
		for _, e := range p.Errors {
			errs = append(errs, e.Error())
		}
	})
	if len(errs) > 0 {
		return nil, fmt.Errorf("cannot load /repo: %s", strings.Join(errs, "; "))
	}
	eng.pkgs = pkgs
	prog, spkgs := ssautil.Packages(pkgs, ssa.NaiveForm|ssa.GlobalDebug)
	eng.prog = prog
	for i, p := range pkgs {
		if spkgs[i] == nil {
			continue
		}
		spkgs[i].Build()
		eng.ssaPkgs[p.PkgPath] = spkgs[i]
		eng.typePkgs[p.PkgPath] = p.Types
		for _, f := range p.Syntax {
			eng.files[eng.fset.Position(f.Pos()).Filename] = f
		}
	}
	seen := map[*types.Package]bool{}
	var visit func(p *types.Package)
	visit = func(p *types.Package) {
		if seen[p] {
			return
		}
		seen[p] = true
		eng.allTypes = append(eng.allTypes, p)
		if _, ok := eng.typePkgs[p.Path()]; !ok {
			eng.typePkgs[p.Path()] = p
		}
		for _, q := range p.Imports() {
			visit(q)
		}
	}
	for _, p := range pkgs {
		visit(p.Types)
	}
	sort.Slice(eng.allTypes, func(i, j int) bool { return eng.allTypes[i].Path() < eng.allTypes[j].Path() })
	cs, err := loadContracts(repo, assumedDir, modPath)
	if err != nil {
		return nil, err
	}
	eng.cs = cs
	eng.bindContracts()
	return eng, nil
}

// bindContracts resolves contract headers to *types.Func objects.
func (eng *Engine) bindContracts() {
	for _, c := range eng.cs.Contracts {
		if c.FieldFunc {
			if eng.fieldFuncs == nil {
				eng.fieldFuncs = map[string]*Contract{}
			}
			eng.fieldFuncs[c.PkgPath+"."+strings.TrimPrefix(c.RecvType, "*")+"."+c.Name] = c
			continue
		}
		if c.FuncType {
			if eng.funcTypes == nil {
				eng.funcTypes = map[string]*Contract{}
			}
			eng.funcTypes[c.PkgPath+"."+c.Name] = c
			continue
		}
		fn, why := eng.resolveFunc(c)
		if fn == nil {
			eng.unbound = append(eng.unbound, fmt.Sprintf("func=%s reason=%s", c.Key(), why))
			continue
		}
		eng.byFunc[fn] = c
	}
}

func (eng *Engine) resolveFunc(c *Contract) (*types.Func, string) {
	pkg := eng.typePkgs[c.PkgPath]
	if pkg == nil {
		return nil, "package not loaded"
	}
	if c.RecvType == "" {
		obj, _ := pkg.Scope().Lookup(c.Name).(*types.Func)
		if obj == nil {
			return nil, "function not found"
		}
		return obj, ""
	}
	rt := strings.TrimPrefix(c.RecvType, "*")
	tpkg := pkg
	if k := strings.Index(rt, "."); k >= 0 {
		// qualified receiver type, e.g. io.Reader
		name := rt[:k]
		rt = rt[k+1:]
		tpkg = nil
		for _, p := range eng.allTypes {
			if p.Name() == name || p.Path() == name {
				tpkg = p
				break
			}
		}
		if tpkg == nil {
			return nil, "receiver package not found"
		}
	}
	tn, _ := tpkg.Scope().Lookup(rt).(*types.TypeName)
	if tn == nil {
		return nil, "receiver type not found"
	}
	obj, _, _ := types.LookupFieldOrMethod(tn.Type(), true, tpkg, c.Name)
	fn, _ := obj.(*types.Func)
	if fn == nil {
		return nil, "method not found"
	}
	return fn, ""
}

func (eng *Engine) contractOf(fn *types.Func) *Contract {
	if c, ok := eng.byFunc[fn]; ok {
		return c
	}
	if o := fn.Origin(); o != fn {
		return eng.byFunc[o]
	}
	return nil
}

// contractOfMethod finds the contract for an interface method (possibly
// declared on an embedded interface).
func (eng *Engine) contractOfMethod(m *types.Func) *Contract {
	return eng.contractOf(m)
}

func (eng *Engine) lookupSpec(pkg *types.Package, name string) *SpecFn {
	if pkg != nil {
		if sp, ok := eng.cs.Specs[pkg.Path()+"."+name]; ok {
			return sp
		}
	}
	if sp, ok := eng.cs.Specs[name]; ok {
		return sp
	}
	return nil
}

func (eng *Engine) typesPkg(path string, fallback *types.Package) *types.Package {
	if p, ok := eng.typePkgs[path]; ok {
		return p
	}
	return fallback
}

// ssaFunc finds the SSA function of a contract.
func (eng *Engine) ssaFunc(c *Contract) *ssa.Function {
	for fn, cc := range eng.byFunc {
		if cc == c {
			return eng.prog.FuncValue(fn)
		}
	}
	return nil
}

// sourceText returns the source text of the smallest interesting expression
// enclosing pos (used for stable obligation names).
func (eng *Engine) sourceText(fn *ssa.Function, pos token.Pos) string {
	p := eng.fset.Position(pos)
	file := eng.files[p.Filename]
	if file == nil {
		return fmt.Sprintf("@%d", p.Line)
	}
	path, _ := astutil.PathEnclosingInterval(file, pos, pos+1)
	for _, n := range path {
		switch n.(type) {
		case *ast.IndexExpr, *ast.SliceExpr, *ast.CallExpr, *ast.BinaryExpr, *ast.StarExpr, *ast.SelectorExpr, *ast.TypeAssertExpr, *ast.UnaryExpr, *ast.AssignStmt, *ast.IncDecStmt, *ast.ReturnStmt, *ast.CompositeLit, *ast.RangeStmt, *ast.ForStmt:
			s := nodeString(eng.fset, n)
			if k := strings.Index(s, "\n"); k >= 0 {
				s = s[:k] + " ..."
			}
			if len(s) > 100 {
				s = s[:100] + "..."
			}
			return s
		}
	}
	return fmt.Sprintf("@%d", p.Line)
}

func nodeString(fset *token.FileSet, n ast.Node) string {
	var buf bytes.Buffer
	printer.Fprint(&buf, fset, n)
	return buf.String()
}

func writeExpr(sb *strings.Builder, e ast.Expr) {
	var buf bytes.Buffer
	printer.Fprint(&buf, token.NewFileSet(), e)
	sb.WriteString(buf.String())
}

// globalByName returns the immutable value of a package-level variable.
func (f *FuncVC) globalByName(name string, t types.Type) *Val {
	for g, v := range f.globals {
		if g.Pkg.Pkg.Path()+"."+g.Name() == name {
			return v
		}
	}
	// find the ssa.Global if the package has one
	k := strings.LastIndex(name, ".")
	if sp := f.eng.prog.ImportedPackage(name[:k]); sp != nil {
		if g := sp.Var(name[k+1:]); g != nil {
			return f.globalVal(g)
		}
	}
	f.unsup("package variable " + name + " has no SSA global")
	return f.freshVal(t, "global")
}

func (f *FuncVC) typeTagByName(name string) string {
	for k, n := range f.typeTags {
		if k == name || strings.HasSuffix(k, "/"+name) {
			return num(int64(n))
		}
	}
	// resolve by scanning all named types
	for _, p := range f.eng.allTypes {
		if dot := strings.LastIndex(name, "."); dot >= 0 {
			pn, tn := strings.TrimPrefix(name[:dot], "*"), name[dot+1:]
			if p.Name() == pn || p.Path() == pn {
				if obj, ok := p.Scope().Lookup(tn).(*types.TypeName); ok {
					var t types.Type = obj.Type()
					if strings.HasPrefix(name, "*") {
						t = types.NewPointer(t)
					}
					return f.typeTag(t)
				}
			}
		}
	}
	f.unsup("unknown type name " + name)
	return "-1"
}

// sourceLine returns the text of the source line containing pos.
func (eng *Engine) sourceLine(pos token.Pos) string {
	p := eng.fset.Position(pos)
	if eng.lines == nil {
		eng.lines = map[string][]string{}
	}
	eng.mu.Lock()
	ls, ok := eng.lines[p.Filename]
	if !ok {
		data, err := os.ReadFile(p.Filename)
		if err == nil {
			ls = strings.Split(string(data), "\n")
		}
		eng.lines[p.Filename] = ls
	}
	eng.mu.Unlock()
	if p.Line >= 1 && p.Line <= len(ls) {
		return ls[p.Line-1]
	}
	return ""
}

// funcSource returns the source text of fn's declaration.
func (eng *Engine) funcSource(fn *ssa.Function) string {
	syn := fn.Syntax()
	if syn == nil {
		return ""
	}
	p0, p1 := eng.fset.Position(syn.Pos()), eng.fset.Position(syn.End())
	data, err := os.ReadFile(p0.Filename)
	if err != nil || p1.Offset > len(data) {
		return ""
	}
	return string(data[p0.Offset:p1.Offset])
}
