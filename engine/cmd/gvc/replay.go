package main

import (
	"math/big"
	"sort"
	"strconv"
	"bufio"
	"encoding/json"
	"fmt"
	"go/types"
	"io"
	"os"
	"os/exec"
	"path/filepath"
	"regexp"
	"strings"
	"time"

	"golang.org/x/tools/go/ssa"
)

// Replay: turn a solver model of a failed obligation into concrete inputs,
// run the REAL function on them (go test -overlay, nothing written to /repo)
// and observe the failure (panic, or the violated postcondition evaluated in
// Go).  Only refutations that reproduce are reported as replayed.

type smtSession struct {
	cmd   *exec.Cmd
	in    io.WriteCloser
	out   *bufio.Reader
	cache map[string]string
}

func startZ3(query string, secs int) (*smtSession, string, error) {
	cmd := exec.Command("z3-new", "-in", "-smt2", fmt.Sprintf("-T:%d", secs))
	in, _ := cmd.StdinPipe()
	outp, _ := cmd.StdoutPipe()
	cmd.Stderr = nil
	if err := cmd.Start(); err != nil {
		return nil, "", err
	}
	s := &smtSession{cmd: cmd, in: in, out: bufio.NewReader(outp)}
	io.WriteString(in, query)
	line, err := s.out.ReadString('\n')
	if err != nil {
		s.close()
		return nil, "", err
	}
	return s, strings.TrimSpace(line), nil
}

func (s *smtSession) close() {
	s.in.Close()
	done := make(chan bool, 1)
	go func() { s.cmd.Wait(); done <- true }()
	select {
	case <-done:
	case <-time.After(2 * time.Second):
		s.cmd.Process.Kill()
	}
}

// getValues asks for the values of terms; returns one string per term.
func (s *smtSession) getValues(terms []string) ([]string, error) {
	if len(terms) == 0 {
		return nil, nil
	}
	if s.cache == nil {
		s.cache = map[string]string{}
	}
	var missing []string
	seen := map[string]bool{}
	for _, t := range terms {
		if _, ok := s.cache[t]; !ok && !seen[t] {
			missing = append(missing, t)
			seen[t] = true
		}
	}
	for len(missing) > 0 {
		n := len(missing)
		if n > 2000 {
			n = 2000
		}
		vals, err := s.getValuesRaw(missing[:n])
		if err != nil {
			return nil, err
		}
		for i, v := range vals {
			s.cache[missing[i]] = v
		}
		missing = missing[n:]
	}
	out := make([]string, len(terms))
	for i, t := range terms {
		out[i] = s.cache[t]
	}
	return out, nil
}

func (s *smtSession) getValuesRaw(terms []string) ([]string, error) {
	io.WriteString(s.in, "(get-value ("+strings.Join(terms, " ")+"))\n")
	// read one balanced s-expression
	var sb strings.Builder
	depth := 0
	started := false
	for {
		r, _, err := s.out.ReadRune()
		if err != nil {
			return nil, err
		}
		sb.WriteRune(r)
		if r == '(' {
			depth++
			started = true
		} else if r == ')' {
			depth--
			if started && depth == 0 {
				break
			}
		}
	}
	txt := sb.String()
	if strings.Contains(txt, "error") && !strings.HasPrefix(strings.TrimSpace(txt), "((") {
		return nil, fmt.Errorf("solver: %s", txt)
	}
	// parse ((term value) (term value) ...)
	txt = strings.TrimSpace(txt)
	txt = txt[1 : len(txt)-1]
	var vals []string
	i := 0
	for i < len(txt) {
		for i < len(txt) && txt[i] != '(' {
			i++
		}
		if i >= len(txt) {
			break
		}
		j := balancedEnd(txt, i)
		pair := txt[i+1 : j-1]
		// pair = term SP value ; term is the first s-expr
		te := balancedEnd(pair, 0)
		vals = append(vals, strings.TrimSpace(pair[te:]))
		i = j
	}
	if len(vals) != len(terms) {
		return nil, fmt.Errorf("solver returned %d values for %d terms", len(vals), len(terms))
	}
	return vals, nil
}

func modelInt(v string) (int64, bool) {
	n, ok := litInt(strings.TrimSpace(v))
	if !ok || !n.IsInt64() {
		return 0, false
	}
	return n.Int64(), true
}

var quantLine = regexp.MustCompile(`\((forall|exists) `)

// candidateQuery builds the query used to search for a concrete input.  With
// stripped=true every assertion containing a quantifier is dropped: the
// result over-approximates, which is fine because candidates are validated by
// running the real code.
func (o *Obligation) candidateQuery(stripped bool, sizeTerms []string, bound int64) string {
	var sb strings.Builder
	for _, l := range strings.Split(prelude, "\n") {
		if stripped && strings.HasPrefix(l, "(assert") && quantLine.MatchString(l) {
			continue
		}
		sb.WriteString(l)
		sb.WriteByte('\n')
	}
	for _, c := range o.fv.sc.cmds[:o.Prefix] {
		if stripped && strings.HasPrefix(c, "(assert") && quantLine.MatchString(c) {
			continue
		}
		sb.WriteString(c)
		sb.WriteByte('\n')
	}
	// declarations made later (entry heaps needed to read the inputs back)
	for _, c := range o.fv.sc.cmds[o.Prefix:] {
		if strings.HasPrefix(c, "(declare-fun") && strings.Contains(c, "@0") {
			sb.WriteString(c)
			sb.WriteByte('\n')
		}
	}
	sb.WriteString("(assert " + o.PC + ")\n")
	sb.WriteString("(assert " + not(o.Goal) + ")\n")
	for _, t := range sizeTerms {
		sb.WriteString("(assert (<= " + t + " " + num(bound) + "))\n")
	}
	sb.WriteString("(check-sat)\n")
	return sb.String()
}

// sizeTerms lists the length terms of the inputs (slices, strings), used to
// steer the solver towards small counterexamples.
func (f *FuncVC) sizeTerms() []string {
	var out []string
	var walk func(v *Val, t types.Type, depth int)
	walk = func(v *Val, t types.Type, depth int) {
		if depth > 2 || v == nil {
			return
		}
		switch u := t.Underlying().(type) {
		case *types.Slice:
			if v.K == KSlice {
				out = append(out, v.Fs[2].T)
			}
		case *types.Basic:
			if u.Info()&types.IsString != 0 && v.K == KStr {
				out = append(out, "(gstr.len "+v.T+")")
			}
		case *types.Pointer:
			st, ok := u.Elem().Underlying().(*types.Struct)
			if !ok || v.K != KPtr || v.P != nil || len(v.Fs) != 0 {
				return
			}
			for i := 0; i < st.NumFields(); i++ {
				fld := st.Field(i)
				loc := &PtrInfo{Heap: structHeapPrefix(u.Elem()), Base: []string{v.T}, Path: []PathElem{{Field: fld.Name()}}, Ty: fld.Type()}
				f.pure++
				fv := f.load(f.entry, &Val{K: KPtr, Ty: types.NewPointer(fld.Type()), P: loc}, fld.Type())
				f.pure--
				walk(fv, fld.Type(), depth+1)
			}
		case *types.Struct:
			if v.K == KStruct {
				for i := 0; i < u.NumFields(); i++ {
					walk(v.Fs[i], u.Field(i).Type(), depth+1)
				}
			}
		}
	}
	for _, p := range f.fn.Params {
		walk(f.regs[p], p.Type(), 0)
	}
	return out
}

// goValue renders a Go expression for the entry value of v (type t) using the
// model in session s.  deps collects statements that must precede the call.
type goBuilder struct {
	f     *FuncVC
	s     *smtSession
	pkg   *types.Package
	depth int
	note  []string
	rt    *rtGen
	query string
	stripped bool
}

func (g *goBuilder) qual(p *types.Package) string {
	if p == g.pkg {
		return ""
	}
	if g.rt != nil {
		g.rt.imports[p.Path()] = p.Name()
	}
	return p.Name()
}

func (g *goBuilder) typeStr(t types.Type) string {
	return types.TypeString(t, g.qual)
}

func (g *goBuilder) importsOK(t types.Type) bool {
	ok := true
	var walk func(t types.Type, d int)
	walk = func(t types.Type, d int) {
		if d > 6 {
			return
		}
		switch x := t.(type) {
		case *types.Named:
			if x.Obj().Pkg() != nil && x.Obj().Pkg() != g.pkg && !x.Obj().Exported() {
				ok = false
			}
		case *types.Pointer:
			walk(x.Elem(), d+1)
		case *types.Slice:
			walk(x.Elem(), d+1)
		case *types.Array:
			walk(x.Elem(), d+1)
		}
	}
	walk(t, 0)
	return ok
}

func (g *goBuilder) entryHeap(name, sort string) string {
	return g.f.heap(g.f.entry, name, sort)
}

func (g *goBuilder) value(v *Val, t types.Type) (string, error) {
	g.depth++
	defer func() { g.depth-- }()
	if g.depth > 4 {
		return "", fmt.Errorf("value too deep")
	}
	switch u := t.Underlying().(type) {
	case *types.Basic:
		switch {
		case u.Info()&types.IsInteger != 0:
			vals, err := g.s.getValues([]string{v.T})
			if err != nil {
				return "", err
			}
			n, ok := modelInt(vals[0])
			if !ok {
				return "", fmt.Errorf("non-integer model value %s", vals[0])
			}
			if lo, hi, ok := intRange(u); ok && (lo.Int64() > n && lo.IsInt64() || hi.IsInt64() && hi.Int64() < n) {
				if !g.stripped || !hi.IsInt64() {
					return "", fmt.Errorf("model value out of range")
				}
				// a model of the quantifier-free part ignores the typing
				// axioms: wrap it into the type (only a candidate input)
				w := hi.Int64() - lo.Int64() + 1
				n = ((n-lo.Int64())%w+w)%w + lo.Int64()
				vals[0] = fmt.Sprint(n)
			}
			if u.Kind() == types.Uint64 || u.Kind() == types.Uint || u.Kind() == types.Uintptr {
				return fmt.Sprintf("%s(%s)", g.typeStr(t), strings.Trim(vals[0], "()- ")), nil
			}
			return fmt.Sprintf("%s(%d)", g.typeStr(t), n), nil
		case u.Info()&types.IsBoolean != 0:
			vals, err := g.s.getValues([]string{v.T})
			if err != nil {
				return "", err
			}
			return fmt.Sprintf("%s(%s)", g.typeStr(t), vals[0]), nil
		case u.Info()&types.IsString != 0:
			vals, err := g.s.getValues([]string{"(gstr.len " + v.T + ")"})
			if err != nil {
				return "", err
			}
			n, ok := modelInt(vals[0])
			if !ok || n < 0 || n > 4096 {
				return "", fmt.Errorf("string too long for replay")
			}
			var terms []string
			for i := int64(0); i < n; i++ {
				terms = append(terms, fmt.Sprintf("(gstr.at %s %d)", v.T, i))
			}
			bs, err := g.s.getValues(terms)
			if err != nil {
				return "", err
			}
			var parts []string
			for _, b := range bs {
				k, _ := modelInt(b)
				parts = append(parts, fmt.Sprint(byte(k)))
			}
			return fmt.Sprintf("%s([]byte{%s})", g.typeStr(t), strings.Join(parts, ", ")), nil
		}
	case *types.Slice:
		if v.K != KSlice {
			break
		}
		vals, err := g.s.getValues([]string{v.Fs[0].T, v.Fs[1].T, v.Fs[2].T, v.Fs[3].T})
		if err != nil {
			return "", err
		}
		ref, _ := modelInt(vals[0])
		ln, ok := modelInt(vals[2])
		if ref == 0 {
			return "nil", nil
		}
		if !ok || ln < 0 || ln > 1<<17 {
			return "", fmt.Errorf("slice too long for replay (%s)", vals[2])
		}
		et := u.Elem()
		var elems []string
		var evs []*Val
		var pre []string
		g.f.noFacts++
		for i := int64(0); i < ln; i++ {
			loc := &PtrInfo{Heap: elemHeapPrefix(et), Base: []string{v.Fs[0].T, arith("+", v.Fs[1].T, num(i))}, Ty: et}
			g.f.pure++
			ev := g.f.load(g.f.entry, &Val{K: KPtr, Ty: types.NewPointer(et), P: loc}, et)
			g.f.pure--
			evs = append(evs, ev)
			if ts, err := leafTerms(ev); err == nil {
				pre = append(pre, ts...)
			}
		}
		g.f.noFacts--
		if len(pre) > 0 {
			g.s.getValues(pre) // one batch: fills the cache
		}
		for i := int64(0); i < ln; i++ {
			ev := evs[i]
			s, err := g.value(ev, et)
			if err != nil {
				return "", err
			}
			elems = append(elems, s)
		}
		if len(elems) > 64 {
			// keep the test readable
		}
		return fmt.Sprintf("%s{%s}", g.typeStr(t), strings.Join(elems, ", ")), nil
	case *types.Array:
		if v.K != KArr || u.Len() > 4096 {
			break
		}
		var elems []string
		for i := int64(0); i < u.Len(); i++ {
			ev := g.f.arrayIndex(v, num(i))
			s, err := g.value(ev, u.Elem())
			if err != nil {
				return "", err
			}
			elems = append(elems, s)
		}
		return fmt.Sprintf("%s{%s}", g.typeStr(t), strings.Join(elems, ", ")), nil
	case *types.Pointer:
		st, ok := u.Elem().Underlying().(*types.Struct)
		if !ok || v.K != KPtr || v.P != nil || len(v.Fs) != 0 {
			break
		}
		vals, err := g.s.getValues([]string{v.T})
		if err != nil {
			return "", err
		}
		if id, _ := modelInt(vals[0]); id == 0 {
			return "nil", nil
		}
		if nt, ok := u.Elem().(*types.Named); ok && nt.Obj().Pkg() != nil && nt.Obj().Pkg() != g.pkg && nt.Obj().Pkg().Path() == modPath+"/parser" && nt.Obj().Name() == "Parser" {
			return g.parserValue(v, u, st)
		}
		var fields []string
		for i := 0; i < st.NumFields(); i++ {
			fld := st.Field(i)
			loc := &PtrInfo{Heap: structHeapPrefix(u.Elem()), Base: []string{v.T}, Path: []PathElem{{Field: fld.Name()}}, Ty: fld.Type()}
			g.f.pure++
			fv := g.f.load(g.f.entry, &Val{K: KPtr, Ty: types.NewPointer(fld.Type()), P: loc}, fld.Type())
			g.f.pure--
			s, err := g.value(fv, fld.Type())
			if err != nil {
				return "", fmt.Errorf("field %s: %v", fld.Name(), err)
			}
			if !fld.Exported() && fld.Pkg() != g.pkg {
				if s == "nil" || s == "0" || s == "false" {
					continue
				}
				return "", fmt.Errorf("unexported field %s of another package", fld.Name())
			}
			fields = append(fields, fld.Name()+": "+s)
		}
		return fmt.Sprintf("&%s{%s}", g.typeStr(u.Elem()), strings.Join(fields, ", ")), nil
	case *types.Struct:
		if v.K != KStruct {
			break
		}
		var fields []string
		for i := 0; i < u.NumFields(); i++ {
			s, err := g.value(v.Fs[i], u.Field(i).Type())
			if err != nil {
				return "", err
			}
			fields = append(fields, u.Field(i).Name()+": "+s)
		}
		return fmt.Sprintf("%s{%s}", g.typeStr(t), strings.Join(fields, ", ")), nil
	case *types.Interface, *types.Signature, *types.Map:
		if mt, ok := u.(*types.Map); ok && v.K == KMap {
			if s, err := g.mapValue(v, t, mt); err == nil {
				return s, nil
			} else if err != errNilMap {
				return "", err
			}
		}
		if it, ok := u.(*types.Interface); ok && v.K == KIface {
			if s, err := g.readerValue(v, it); err == nil {
				return s, nil
			}
		}
		var tt string
		switch v.K {
		case KIface:
			tt = v.Fs[0].T
		case KMap, KFunc:
			tt = v.T
		}
		if tt != "" {
			vals, err := g.s.getValues([]string{tt})
			if err == nil {
				if n, _ := modelInt(vals[0]); n == 0 {
					return "nil", nil
				}
			}
		}
		return "", fmt.Errorf("cannot construct a non-nil %s from the model", g.typeStr(t))
	}
	return "", fmt.Errorf("cannot construct a value of type %s", g.typeStr(t))
}

// parserValue builds a *parser.Parser outside package parser, where its
// fields cannot be set: a new parser over the model's file content, moved to
// the model's virtual position from+pos.  This is the abstract state
// (file, position) that the parser's invariant parser.inv ties the concrete
// buffer to; every contract that takes a parser requires that invariant.
func (g *goBuilder) parserValue(v *Val, pt *types.Pointer, st *types.Struct) (string, error) {
	field := func(name string) (*Val, types.Type) {
		for i := 0; i < st.NumFields(); i++ {
			fld := st.Field(i)
			if fld.Name() == name {
				loc := &PtrInfo{Heap: structHeapPrefix(pt.Elem()), Base: []string{v.T}, Path: []PathElem{{Field: fld.Name()}}, Ty: fld.Type()}
				g.f.pure++
				fv := g.f.load(g.f.entry, &Val{K: KPtr, Ty: types.NewPointer(fld.Type()), P: loc}, fld.Type())
				g.f.pure--
				return fv, fld.Type()
			}
		}
		return nil, nil
	}
	rv, rt := field("r")
	from, _ := field("from")
	pos, _ := field("pos")
	if rv == nil || from == nil || pos == nil || rv.K != KIface {
		return "", fmt.Errorf("parser fields not found")
	}
	it, ok := rt.Underlying().(*types.Interface)
	if !ok {
		return "", fmt.Errorf("parser reader type")
	}
	rd, err := g.readerValue(rv, it)
	if err != nil || rd == "nil" {
		return "", fmt.Errorf("parser reader: %v", err)
	}
	vals, err := g.s.getValues([]string{from.T, pos.T})
	if err != nil {
		return "", err
	}
	a, ok1 := modelInt(vals[0])
	b, ok2 := modelInt(vals[1])
	if !ok1 || !ok2 || a < 0 || b < 0 {
		return "", fmt.Errorf("parser position not usable")
	}
	g.qual(pt.Elem().(*types.Named).Obj().Pkg())
	return fmt.Sprintf("func() *parser.Parser { p := parser.New(%s); if err := p.SeekPos(%d); err != nil { panic(err) }; return p }()", rd, a+b), nil
}

var errNilMap = fmt.Errorf("nil map")

// mapValue builds a Go map literal from the model: the domain is enumerated
// key by key, which is feasible for key types of at most 16 bits.
func (g *goBuilder) mapValue(v *Val, t types.Type, mt *types.Map) (string, error) {
	vals, err := g.s.getValues([]string{v.T})
	if err != nil {
		return "", err
	}
	if ref, _ := modelInt(vals[0]); ref == 0 {
		return "", errNilMap
	}
	kb := basicOf(mt.Key())
	if kb != nil && kb.Info()&types.IsString != 0 {
		return g.strMapValue(v, t, mt)
	}
	if kb == nil || kb.Info()&types.IsInteger == 0 {
		return "", fmt.Errorf("map key type %s cannot be enumerated", g.typeStr(mt.Key()))
	}
	lo, hi, ok := intRange(kb)
	if !ok || new(big.Int).Sub(hi, lo).BitLen() > 16 {
		return "", fmt.Errorf("map key type %s has too many values to enumerate", g.typeStr(mt.Key()))
	}
	dom, _, _, ok := g.f.mapHeaps(g.f.entry, v, mt)
	if !ok {
		return "", fmt.Errorf("map heaps")
	}
	var terms []string
	for k := lo.Int64(); k <= hi.Int64(); k++ {
		terms = append(terms, sel(sel(dom, v.T), num(k)))
	}
	present, err := g.s.getValues(terms)
	if err != nil {
		return "", err
	}
	var elems []string
	for i, p := range present {
		if strings.TrimSpace(p) != "true" {
			continue
		}
		k := lo.Int64() + int64(i)
		kv := &Val{K: KInt, T: num(k), Ty: mt.Key()}
		g.f.pure++
		ev := g.f.mapValue(g.f.entry, v, kv, mt)
		g.f.pure--
		// the domain bit is known: read the stored value directly
		s, err := g.value(ev, mt.Elem())
		if err != nil {
			return "", err
		}
		elems = append(elems, fmt.Sprintf("%d: %s", k, s))
		if len(elems) > 70000 {
			return "", fmt.Errorf("map too large for replay")
		}
	}
	return fmt.Sprintf("%s{%s}", g.typeStr(t), strings.Join(elems, ", ")), nil
}

// strMapValue builds a string-keyed map: only the string literals of the
// function are tried as keys (the model may contain further, unnamed keys,
// which are dropped; the replay then runs on a smaller map).
func (g *goBuilder) strMapValue(v *Val, t types.Type, mt *types.Map) (string, error) {
	dom, _, _, ok := g.f.mapHeaps(g.f.entry, v, mt)
	if !ok {
		return "", fmt.Errorf("map heaps")
	}
	var elems []string
	for _, lit := range sortedKeys(g.f.strs.lits) {
		name := g.f.strs.lits[lit]
		if !strings.Contains(g.query, "(declare-fun "+name+" ") && !strings.Contains(g.query, "(declare-const "+name+" ") {
			continue
		}
		present, err := g.s.getValues([]string{sel(sel(dom, v.T), name)})
		if err != nil || strings.TrimSpace(present[0]) != "true" {
			continue
		}
		kv := &Val{K: KStr, T: name, Ty: mt.Key()}
		g.f.pure++
		ev := g.f.mapValue(g.f.entry, v, kv, mt)
		g.f.pure--
		s, err := g.value(ev, mt.Elem())
		if err != nil {
			return "", err
		}
		elems = append(elems, fmt.Sprintf("%q: %s", lit, s))
	}
	return fmt.Sprintf("%s{%s}", g.typeStr(t), strings.Join(elems, ", ")), nil
}

// readerValue builds a bytes.Reader for an interface whose methods a
// bytes.Reader offers (io.Reader, io.ReadSeeker, io.ReaderAt, ...): its
// content is file(r)[0:fsize(r)] and its cursor rpos(r) of the model.  Such a
// reader never reports a fault and never reads short, so a model that relies
// on either does not reproduce.  A writer becomes a bytes.Buffer.
func (g *goBuilder) readerValue(v *Val, it *types.Interface) (string, error) {
	vals, err := g.s.getValues([]string{v.Fs[0].T})
	if err == nil {
		if n, _ := modelInt(vals[0]); n == 0 {
			return "nil", nil
		}
	}
	readerMethods := map[string]bool{"Read": true, "Seek": true, "ReadAt": true, "ReadByte": true, "Len": true, "Size": true}
	isReader, isWriter := it.NumMethods() > 0, it.NumMethods() > 0
	for i := 0; i < it.NumMethods(); i++ {
		m := it.Method(i).Name()
		if !readerMethods[m] {
			isReader = false
		}
		if m != "Write" && m != "WriteByte" && m != "WriteString" {
			isWriter = false
		}
	}
	if isWriter {
		if g.rt != nil {
			g.rt.imports["bytes"] = "bytes"
		}
		return "&bytes.Buffer{}", nil
	}
	if !isReader {
		return "", fmt.Errorf("not a reader")
	}
	id := v.Fs[1].T
	fsize := sel(g.entryHeap("G:fsize", "(Array Int Int)"), id)
	rpos := sel(g.entryHeap("G:rpos", "(Array Int Int)"), id)
	vals, err = g.s.getValues([]string{fsize, rpos})
	if err != nil {
		return "", err
	}
	n, ok1 := modelInt(vals[0])
	pos, ok2 := modelInt(vals[1])
	if !ok1 || !ok2 || n < 0 || n > 1<<16 {
		return "", fmt.Errorf("file size %s not usable", vals[0])
	}
	file := sel(g.entryHeap("G:file", "(Array Int (Array Int Int))"), id)
	var terms []string
	for i := int64(0); i < n; i++ {
		terms = append(terms, sel(file, num(i)))
	}
	var bs []string
	if n > 0 {
		bvals, err := g.s.getValues(terms)
		if err != nil {
			return "", err
		}
		for _, b := range bvals {
			k, _ := modelInt(b)
			bs = append(bs, fmt.Sprint(byte(k)))
		}
	}
	if g.rt != nil {
		g.rt.imports["bytes"] = "bytes"
	}
	if pos < 0 || pos > n {
		pos = 0
	}
	return fmt.Sprintf("func() *bytes.Reader { r := bytes.NewReader([]byte{%s}); r.Seek(%d, 0); return r }()", strings.Join(bs, ", "), pos), nil
}

// replay tries to reproduce the failure of o on the real code.
func replayObligation(o *Obligation, eng *Engine, repo string) {
	f := o.fv
	if f == nil || f.fn == nil || o.Expect != "unsat" {
		return
	}
	fn := f.fn
	var log strings.Builder
	defer func() {
		o.replayLog = log.String()
	}()
	defer func() {
		if r := recover(); r != nil {
			fmt.Fprintf(&log, "replay aborted: %v\n", r)
		}
	}()
	for _, p := range fn.Params {
		f.predeclare(p.Type(), 0)
	}
	sizes := f.sizeTerms()
	type attempt struct {
		stripped bool
		bound    int64
	}
	var attempts []attempt
	for _, b := range []int64{24, 300, 5000, 70000} {
		attempts = append(attempts, attempt{false, b}, attempt{true, b})
	}
	for _, at := range attempts {
		stripped := at.stripped
		if o.Status == "unknown" && !stripped {
			continue // the full query is known not to produce a model in time
		}
		cq := o.candidateQuery(stripped, sizes, at.bound)
		s, res, err := startZ3(cq, 10)
		if err != nil {
			fmt.Fprintf(&log, "cannot start solver: %v\n", err)
			return
		}
		if res != "sat" {
			fmt.Fprintf(&log, "candidate query (quantifiers stripped=%v): %s\n", stripped, res)
			s.close()
			continue
		}
		rt := newRtGen(f)
		g := &goBuilder{f: f, s: s, pkg: fn.Pkg.Pkg, rt: rt, query: cq, stripped: stripped}
		var args []string
		var failed error
		for _, p := range fn.Params {
			if !g.importsOK(p.Type()) {
				failed = fmt.Errorf("parameter %s has an unexported type of another package", p.Name())
				break
			}
			a, err := g.value(f.regs[p], p.Type())
			if err != nil {
				failed = fmt.Errorf("parameter %s: %v", p.Name(), err)
				break
			}
			args = append(args, a)
		}
		s.close()
		if failed != nil {
			fmt.Fprintf(&log, "model (quantifiers stripped=%v) cannot be turned into Go values: %v\n", stripped, failed)
			continue
		}
		disabled := map[int]bool{}
		for try := 0; try < 6; try++ {
			rt = newRtGen(f)
			for k, v := range g.rt.imports {
				rt.imports[k] = v
			}
			tp := buildReplayTest(f, o, rt, args, disabled)
			o.replayTest = tp.src
			out, _ := runReplayTest(repo, fn, tp.src, tp.name)
			if strings.Contains(out, "[build failed]") || strings.Contains(out, "[setup failed]") {
				// drop the clauses whose rendering does not compile and retry
				progress := false
				for _, m := range buildErrLine.FindAllStringSubmatch(out, -1) {
					ln, _ := strconv.Atoi(m[1])
					if ci, ok := tp.lineClause[ln]; ok && !disabled[ci] {
						disabled[ci] = true
						progress = true
					}
				}
				if progress {
					continue
				}
				fmt.Fprintf(&log, "--- replay test does not build:\n%s\n", out)
				break
			}
			fmt.Fprintf(&log, "--- inputs (quantifiers stripped=%v): %s\n%s\n", stripped, strings.Join(args, " ; "), out)
			for _, n := range tp.notes {
				fmt.Fprintf(&log, "    %s\n", n)
			}
			preBad := strings.Contains(out, "GVC-REPLAY-PRE-VIOLATED")
			for ci := range disabled {
				if ci < 0 {
					preBad = preBad || stripped // an unchecked precondition: only the full model is known to satisfy it
				}
			}
			if stripped && tp.untranslatedPre {
				preBad = true
			}
			hit := strings.Contains(out, "GVC-REPLAY-POST") || strings.Contains(out, "panic: test timed out")
			if strings.Contains(out, "GVC-REPLAY-PANIC") && (panicKinds[o.Kind] || f.con == nil || (!f.con.MayPanic && len(f.con.PanicsIf) == 0)) {
				hit = true
			}
			if hit && !preBad {
				o.replayed = true
				return
			}
			if preBad {
				fmt.Fprintf(&log, "    (input does not satisfy the preconditions on the real code, or this cannot be checked: not counted)\n")
			}
			break
		}
	}
}

var buildErrLine = regexp.MustCompile(`zz_gvc_replay_test\.go:(\d+):`)

var panicKinds = map[string]bool{"index": true, "slice": true, "nil": true, "div": true, "shift": true, "make": true, "typeassert": true, "panic": true}

type replayTest struct {
	src, name       string
	lineClause      map[int]int // source line -> clause index (requires are negative: -1-i)
	notes           []string
	untranslatedPre bool
}

// buildReplayTest generates an in-package test that calls the real function
// on the model input, checks the requires clauses before and the ensures
// clauses after the call.
func buildReplayTest(f *FuncVC, o *Obligation, rt *rtGen, args []string, disabled map[int]bool) *replayTest {
	fn := f.fn
	tp := &replayTest{name: "TestGvcReplay", lineClause: map[int]int{}}
	sig := fn.Signature
	var pnames []string
	for i, p := range fn.Params {
		n := p.Name()
		if f.con != nil && i < len(f.con.Params) && f.con.Params[i] != "" && f.con.Params[i] != "_" {
			n = f.con.Params[i]
		}
		if n == "" || n == "_" {
			n = fmt.Sprintf("gvcArg%d", i)
		}
		pnames = append(pnames, n)
	}
	var body strings.Builder
	line := 0
	emit := func(s string) {
		body.WriteString(s)
		line += strings.Count(s, "\n")
	}
	emit(fmt.Sprintf("// generated by gvc replay for obligation %s\n", strings.ReplaceAll(o.Name, "\n", " ")))
	emit(fmt.Sprintf("func %s(t *testing.T) {\n", tp.name))
	for i, a := range args {
		emit(fmt.Sprintf("\tvar %s %s = %s\n\t_ = %s\n", pnames[i], rt.typeStr(fn.Params[i].Type()), a, pnames[i]))
	}
	clauseLines := func(kind string, idx int, src, code string) {
		start := line
		emit(fmt.Sprintf("\tif !gvcCheck(t, %q, %q, func() bool { return %s }) {\n\t\treturn\n\t}\n", kind, src, code))
		for l := start; l < line; l++ {
			tp.lineClause[l] = idx
		}
	}
	if f.con != nil {
		for i, c := range f.con.Requires {
			code, why := rt.clause(c.Expr)
			if why != "" || disabled[-1-i] {
				if why == "" {
					why = "rendering does not compile"
				}
				tp.notes = append(tp.notes, fmt.Sprintf("requires not checked at run time (%s): %s", why, c.Text))
				tp.untranslatedPre = true
				continue
			}
			clauseLines("PRE", -1-i, c.Text, code)
		}
	}
	for i, n := range pnames {
		_ = i
		emit(fmt.Sprintf("\tgvcPre_%s := gvcDeep(%s)\n\t_ = gvcPre_%s\n", n, n, n))
	}
	var rnames []string
	for i := 0; i < sig.Results().Len(); i++ {
		n := fmt.Sprintf("gvcRes%d", i)
		if f.con != nil && i < len(f.con.Results) && f.con.Results[i] != "" && f.con.Results[i] != "_" {
			n = f.con.Results[i]
		}
		rnames = append(rnames, n)
		emit(fmt.Sprintf("\tvar %s %s\n\t_ = %s\n", n, rt.typeStr(sig.Results().At(i).Type()), n))
	}
	call := ""
	if sig.Recv() != nil {
		call = pnames[0] + "." + fn.Name() + "(" + strings.Join(pnames[1:], ", ") + ")"
	} else {
		call = fn.Name() + "(" + strings.Join(pnames, ", ") + ")"
	}
	if sig.Variadic() {
		call = strings.TrimSuffix(call, ")") + "...)"
	}
	if len(rnames) > 0 {
		call = strings.Join(rnames, ", ") + " = " + call
	}
	emit("\tfunc() {\n\t\tdefer func() {\n\t\t\tif r := recover(); r != nil {\n\t\t\t\tt.Fatalf(\"GVC-REPLAY-PANIC: %v\", r)\n\t\t\t}\n\t\t}()\n")
	emit("\t\t" + call + "\n\t}()\n")
	if f.con != nil {
		for i, c := range f.con.Ensures {
			if disabled[i] {
				tp.notes = append(tp.notes, "ensures not checked at run time (rendering does not compile): "+c.Text)
				continue
			}
			// conjuncts are rendered one by one so that a conjunct outside the
			// subset (fresh, ghost state) does not hide the others
			for _, cj := range flattenAnd(c.Expr, nil) {
				code, why := rt.clause(cj)
				if why != "" {
					tp.notes = append(tp.notes, fmt.Sprintf("ensures not checked at run time (%s): %s", why, exprString(cj)))
					continue
				}
				start := line
				emit(fmt.Sprintf("\tgvcCheck(t, \"POST\", %q, func() bool { return %s })\n", exprString(cj), code))
				for l := start; l < line; l++ {
					tp.lineClause[l] = i
				}
			}
		}
	}
	emit("}\n")
	var head strings.Builder
	fmt.Fprintf(&head, "package %s\n\nimport (\n\t\"reflect\"\n\t\"testing\"\n\t\"unsafe\"\n", fn.Pkg.Pkg.Name())
	var paths []string
	for p := range rt.imports {
		if p != "reflect" && p != "testing" && p != "unsafe" {
			paths = append(paths, p)
		}
	}
	sort.Strings(paths)
	for _, p := range paths {
		fmt.Fprintf(&head, "\t%q\n", p)
	}
	head.WriteString(")\n\nvar _ = reflect.DeepEqual\nvar _ unsafe.Pointer\n")
	headLines := strings.Count(head.String(), "\n")
	// shift the line map by the header
	shifted := map[int]int{}
	for l, c := range tp.lineClause {
		shifted[l+headLines+1] = c
	}
	tp.lineClause = shifted
	tp.src = head.String() + body.String() + "\n" + rt.specSources() + rtHelpers
	return tp
}

var plainGo = regexp.MustCompile(`^[A-Za-z0-9_ ().,<>=!&|+\-*/%\[\]:]+$`)

// postAsGo renders simple postconditions (no old/forall/ghost/spec) as Go.
func postAsGo(f *FuncVC, o *Obligation, results []string) string {
	src := o.Src
	for _, bad := range []string{"old(", "forall", "exists", "==>", "implies(", "fresh(", "ref(", "be16(", "be32(", "is(", "ite("} {
		if strings.Contains(src, bad) {
			return ""
		}
	}
	if !plainGo.MatchString(src) {
		return ""
	}
	for name := range f.eng.cs.Specs {
		if strings.Contains(src, name+"(") {
			return ""
		}
	}
	// the parameters keep their names only if the test declares them; it does
	// not, so only postconditions over results are rendered
	for _, p := range f.fn.Params {
		if regexp.MustCompile(`\b` + regexp.QuoteMeta(p.Name()) + `\b`).MatchString(src) {
			return ""
		}
	}
	for i, r := range f.con.Results {
		if i < len(results) {
			src = regexp.MustCompile(`\b`+regexp.QuoteMeta(r)+`\b`).ReplaceAllString(src, results[i])
		}
	}
	return src
}

func runReplayTest(repo string, fn *ssa.Function, test, name string) (string, bool) {
	dir, err := os.MkdirTemp("", "gvc-replay-")
	if err != nil {
		return err.Error(), false
	}
	defer os.RemoveAll(dir)
	pkgPath := fn.Pkg.Pkg.Path()
	rel := strings.TrimPrefix(strings.TrimPrefix(pkgPath, modPath), "/")
	pkgDir := filepath.Join(repo, rel)
	testFile := filepath.Join(dir, "zz_gvc_replay_test.go")
	os.WriteFile(testFile, []byte(test), 0o644)
	ov := map[string]map[string]string{"Replace": {filepath.Join(pkgDir, "zz_gvc_replay_test.go"): testFile}}
	data, _ := json.Marshal(ov)
	ovFile := filepath.Join(dir, "overlay.json")
	os.WriteFile(ovFile, data, 0o644)
	cmd := exec.Command("go", "test", "-overlay", ovFile, "-vet=off", "-count=1", "-timeout", "60s", "-run", "^"+name+"$", ".")
	cmd.Dir = pkgDir
	cmd.Env = append(os.Environ(), "GOFLAGS=-mod=mod", "GOPROXY=off", "GOSUMDB=off", "GOTOOLCHAIN=local")
	out, _ := cmd.CombinedOutput()
	s := string(out)
	if len(s) > 4000 {
		s = s[:4000]
	}
	failed := strings.Contains(s, "GVC-REPLAY-PANIC") || strings.Contains(s, "GVC-REPLAY-POST") || strings.Contains(s, "panic: test timed out")
	return s, failed
}

func cmdReplay(args []string) {
	if len(args) != 1 {
		usage()
	}
	data, err := os.ReadFile(args[0])
	if err != nil {
		fmt.Fprintln(os.Stderr, err)
		os.Exit(2)
	}
	var rep map[string]interface{}
	if err := json.Unmarshal(data, &rep); err != nil {
		fmt.Fprintln(os.Stderr, err)
		os.Exit(2)
	}
	fmt.Printf("obligation: %v\nfunction:   %v\nstatus:     %v\n", rep["obligation"], rep["function"], rep["status"])
	test, _ := rep["replay_test"].(string)
	if test == "" {
		fmt.Println("no replay test recorded (no-failing-input-found); solver output:")
		fmt.Println(rep["solver_output"])
		os.Exit(1)
	}
	// re-run the recorded test against the current tree
	eng, err := loadEngine("/repo", verifDir+"/assumed", nil)
	if err != nil {
		fmt.Fprintln(os.Stderr, err)
		os.Exit(2)
	}
	fname, _ := rep["function"].(string)
	for fnObj := range eng.byFunc {
		fn := eng.prog.FuncValue(fnObj)
		if fn != nil && shortFuncName(fn) == fname {
			out, failed := runReplayTest("/repo", fn, test, "TestGvcReplay")
			fmt.Println(out)
			if failed {
				fmt.Println("replay: the failure reproduces on the current tree")
				os.Exit(1)
			}
			fmt.Println("replay: the failure does not reproduce on the current tree")
			os.Exit(0)
		}
	}
	fmt.Println("function not found")
	os.Exit(2)
}

// predeclare makes sure the entry heaps reachable from a value of type t are
// declared, so that the model can be queried for them.
func (f *FuncVC) predeclare(t types.Type, depth int) {
	if depth > 3 {
		return
	}
	switch u := t.Underlying().(type) {
	case *types.Slice:
		for _, l := range leavesOfType(u.Elem()) {
			f.heap(f.entry, elemHeapPrefix(u.Elem())+l.Path, arraySort(2, l.Sort))
		}
		f.predeclare(u.Elem(), depth+1)
	case *types.Pointer:
		if st, ok := u.Elem().Underlying().(*types.Struct); ok {
			for _, l := range leavesOfType(u.Elem()) {
				f.heap(f.entry, structHeapPrefix(u.Elem())+l.Path, arraySort(1, l.Sort))
			}
			for i := 0; i < st.NumFields(); i++ {
				f.predeclare(st.Field(i).Type(), depth+1)
			}
		}
	case *types.Struct:
		for i := 0; i < u.NumFields(); i++ {
			f.predeclare(u.Field(i).Type(), depth+1)
		}
	case *types.Map:
		if dom, _, ksort, ok := f.mapHeaps(f.entry, nil, u); ok {
			_ = dom
			for _, l := range leavesOfType(u.Elem()) {
				f.heap(f.entry, mapHeapPrefix(u)+".val"+l.Path, "(Array Int (Array "+ksort+" "+l.Sort+"))")
			}
		}
		f.predeclare(u.Elem(), depth+1)
	case *types.Interface:
		if f.eng.cs.Specs["file"] != nil {
			f.heap(f.entry, "G:file", "(Array Int (Array Int Int))")
			f.heap(f.entry, "G:fsize", "(Array Int Int)")
			f.heap(f.entry, "G:rpos", "(Array Int Int)")
		}
	}
}
