package main

import (
	"bufio"
	"encoding/json"
	"fmt"
	"go/types"
	"io"
	"os"
	"os/exec"
	"path/filepath"
	"regexp"
	"strings"
	"time"

	"golang.org/x/tools/go/ssa"
)

// Replay: turn a solver model of a failed obligation into concrete inputs,
// run the REAL function on them (go test -overlay, nothing written to /repo)
// and observe the failure (panic, or the violated postcondition evaluated in
// Go).  Only refutations that reproduce are reported as replayed.

type smtSession struct {
	cmd *exec.Cmd
	in  io.WriteCloser
	out *bufio.Reader
}

func startZ3(query string, secs int) (*smtSession, string, error) {
	cmd := exec.Command("z3-new", "-in", "-smt2", fmt.Sprintf("-T:%d", secs))
	in, _ := cmd.StdinPipe()
	outp, _ := cmd.StdoutPipe()
	cmd.Stderr = nil
	if err := cmd.Start(); err != nil {
		return nil, "", err
	}
	s := &smtSession{cmd: cmd, in: in, out: bufio.NewReader(outp)}
	io.WriteString(in, query)
	line, err := s.out.ReadString('\n')
	if err != nil {
		s.close()
		return nil, "", err
	}
	return s, strings.TrimSpace(line), nil
}

func (s *smtSession) close() {
	s.in.Close()
	done := make(chan bool, 1)
	go func() { s.cmd.Wait(); done <- true }()
	select {
	case <-done:
	case <-time.After(2 * time.Second):
		s.cmd.Process.Kill()
	}
}

// getValues asks for the values of terms; returns one string per term.
func (s *smtSession) getValues(terms []string) ([]string, error) {
	if len(terms) == 0 {
		return nil, nil
	}
	io.WriteString(s.in, "(get-value ("+strings.Join(terms, " ")+"))\n")
	// read one balanced s-expression
	var sb strings.Builder
	depth := 0
	started := false
	for {
		r, _, err := s.out.ReadRune()
		if err != nil {
			return nil, err
		}
		sb.WriteRune(r)
		if r == '(' {
			depth++
			started = true
		} else if r == ')' {
			depth--
			if started && depth == 0 {
				break
			}
		}
	}
	txt := sb.String()
	if strings.Contains(txt, "error") && !strings.HasPrefix(strings.TrimSpace(txt), "((") {
		return nil, fmt.Errorf("solver: %s", txt)
	}
	// parse ((term value) (term value) ...)
	txt = strings.TrimSpace(txt)
	txt = txt[1 : len(txt)-1]
	var vals []string
	i := 0
	for i < len(txt) {
		for i < len(txt) && txt[i] != '(' {
			i++
		}
		if i >= len(txt) {
			break
		}
		j := balancedEnd(txt, i)
		pair := txt[i+1 : j-1]
		// pair = term SP value ; term is the first s-expr
		te := balancedEnd(pair, 0)
		vals = append(vals, strings.TrimSpace(pair[te:]))
		i = j
	}
	if len(vals) != len(terms) {
		return nil, fmt.Errorf("solver returned %d values for %d terms", len(vals), len(terms))
	}
	return vals, nil
}

func modelInt(v string) (int64, bool) {
	n, ok := litInt(strings.TrimSpace(v))
	if !ok || !n.IsInt64() {
		return 0, false
	}
	return n.Int64(), true
}

var quantLine = regexp.MustCompile(`\((forall|exists) `)

// candidateQuery builds the query used to search for a concrete input.  With
// stripped=true every assertion containing a quantifier is dropped: the
// result over-approximates, which is fine because candidates are validated by
// running the real code.
func (o *Obligation) candidateQuery(stripped bool, sizeTerms []string, bound int64) string {
	var sb strings.Builder
	for _, l := range strings.Split(prelude, "\n") {
		if stripped && strings.HasPrefix(l, "(assert") && quantLine.MatchString(l) {
			continue
		}
		sb.WriteString(l)
		sb.WriteByte('\n')
	}
	for _, c := range o.fv.sc.cmds[:o.Prefix] {
		if stripped && strings.HasPrefix(c, "(assert") && quantLine.MatchString(c) {
			continue
		}
		sb.WriteString(c)
		sb.WriteByte('\n')
	}
	// declarations made later (entry heaps needed to read the inputs back)
	for _, c := range o.fv.sc.cmds[o.Prefix:] {
		if strings.HasPrefix(c, "(declare-fun") && strings.Contains(c, "@0") {
			sb.WriteString(c)
			sb.WriteByte('\n')
		}
	}
	sb.WriteString("(assert " + o.PC + ")\n")
	sb.WriteString("(assert " + not(o.Goal) + ")\n")
	for _, t := range sizeTerms {
		sb.WriteString("(assert (<= " + t + " " + num(bound) + "))\n")
	}
	sb.WriteString("(check-sat)\n")
	return sb.String()
}

// sizeTerms lists the length terms of the inputs (slices, strings), used to
// steer the solver towards small counterexamples.
func (f *FuncVC) sizeTerms() []string {
	var out []string
	var walk func(v *Val, t types.Type, depth int)
	walk = func(v *Val, t types.Type, depth int) {
		if depth > 2 || v == nil {
			return
		}
		switch u := t.Underlying().(type) {
		case *types.Slice:
			if v.K == KSlice {
				out = append(out, v.Fs[2].T)
			}
		case *types.Basic:
			if u.Info()&types.IsString != 0 && v.K == KStr {
				out = append(out, "(gstr.len "+v.T+")")
			}
		case *types.Pointer:
			st, ok := u.Elem().Underlying().(*types.Struct)
			if !ok || v.K != KPtr || v.P != nil || len(v.Fs) != 0 {
				return
			}
			for i := 0; i < st.NumFields(); i++ {
				fld := st.Field(i)
				loc := &PtrInfo{Heap: structHeapPrefix(u.Elem()), Base: []string{v.T}, Path: []PathElem{{Field: fld.Name()}}, Ty: fld.Type()}
				f.pure++
				fv := f.load(f.entry, &Val{K: KPtr, Ty: types.NewPointer(fld.Type()), P: loc}, fld.Type())
				f.pure--
				walk(fv, fld.Type(), depth+1)
			}
		case *types.Struct:
			if v.K == KStruct {
				for i := 0; i < u.NumFields(); i++ {
					walk(v.Fs[i], u.Field(i).Type(), depth+1)
				}
			}
		}
	}
	for _, p := range f.fn.Params {
		walk(f.regs[p], p.Type(), 0)
	}
	return out
}

// goValue renders a Go expression for the entry value of v (type t) using the
// model in session s.  deps collects statements that must precede the call.
type goBuilder struct {
	f     *FuncVC
	s     *smtSession
	pkg   *types.Package
	depth int
	note  []string
}

func (g *goBuilder) qual(p *types.Package) string {
	if p == g.pkg {
		return ""
	}
	return p.Name()
}

func (g *goBuilder) typeStr(t types.Type) string {
	return types.TypeString(t, g.qual)
}

func (g *goBuilder) importsOK(t types.Type) bool {
	ok := true
	var walk func(t types.Type, d int)
	walk = func(t types.Type, d int) {
		if d > 6 {
			return
		}
		switch x := t.(type) {
		case *types.Named:
			if x.Obj().Pkg() != nil && x.Obj().Pkg() != g.pkg {
				ok = false
			}
		case *types.Pointer:
			walk(x.Elem(), d+1)
		case *types.Slice:
			walk(x.Elem(), d+1)
		case *types.Array:
			walk(x.Elem(), d+1)
		}
	}
	walk(t, 0)
	return ok
}

func (g *goBuilder) entryHeap(name, sort string) string {
	return g.f.heap(g.f.entry, name, sort)
}

func (g *goBuilder) value(v *Val, t types.Type) (string, error) {
	g.depth++
	defer func() { g.depth-- }()
	if g.depth > 4 {
		return "", fmt.Errorf("value too deep")
	}
	switch u := t.Underlying().(type) {
	case *types.Basic:
		switch {
		case u.Info()&types.IsInteger != 0:
			vals, err := g.s.getValues([]string{v.T})
			if err != nil {
				return "", err
			}
			n, ok := modelInt(vals[0])
			if !ok {
				return "", fmt.Errorf("non-integer model value %s", vals[0])
			}
			if lo, hi, ok := intRange(u); ok && (lo.Int64() > n && lo.IsInt64() || hi.IsInt64() && hi.Int64() < n) {
				return "", fmt.Errorf("model value out of range")
			}
			if u.Kind() == types.Uint64 || u.Kind() == types.Uint || u.Kind() == types.Uintptr {
				return fmt.Sprintf("%s(%s)", g.typeStr(t), strings.Trim(vals[0], "()- ")), nil
			}
			return fmt.Sprintf("%s(%d)", g.typeStr(t), n), nil
		case u.Info()&types.IsBoolean != 0:
			vals, err := g.s.getValues([]string{v.T})
			if err != nil {
				return "", err
			}
			return fmt.Sprintf("%s(%s)", g.typeStr(t), vals[0]), nil
		case u.Info()&types.IsString != 0:
			vals, err := g.s.getValues([]string{"(gstr.len " + v.T + ")"})
			if err != nil {
				return "", err
			}
			n, ok := modelInt(vals[0])
			if !ok || n < 0 || n > 4096 {
				return "", fmt.Errorf("string too long for replay")
			}
			var terms []string
			for i := int64(0); i < n; i++ {
				terms = append(terms, fmt.Sprintf("(gstr.at %s %d)", v.T, i))
			}
			bs, err := g.s.getValues(terms)
			if err != nil {
				return "", err
			}
			var parts []string
			for _, b := range bs {
				k, _ := modelInt(b)
				parts = append(parts, fmt.Sprint(byte(k)))
			}
			return fmt.Sprintf("%s([]byte{%s})", g.typeStr(t), strings.Join(parts, ", ")), nil
		}
	case *types.Slice:
		if v.K != KSlice {
			break
		}
		vals, err := g.s.getValues([]string{v.Fs[0].T, v.Fs[1].T, v.Fs[2].T, v.Fs[3].T})
		if err != nil {
			return "", err
		}
		ref, _ := modelInt(vals[0])
		ln, ok := modelInt(vals[2])
		if ref == 0 {
			return "nil", nil
		}
		if !ok || ln < 0 || ln > 1<<16 {
			return "", fmt.Errorf("slice too long for replay (%s)", vals[2])
		}
		et := u.Elem()
		var elems []string
		for i := int64(0); i < ln; i++ {
			loc := &PtrInfo{Heap: elemHeapPrefix(et), Base: []string{v.Fs[0].T, arith("+", v.Fs[1].T, num(i))}, Ty: et}
			g.f.pure++
			ev := g.f.load(g.f.entry, &Val{K: KPtr, Ty: types.NewPointer(et), P: loc}, et)
			g.f.pure--
			s, err := g.value(ev, et)
			if err != nil {
				return "", err
			}
			elems = append(elems, s)
		}
		if len(elems) > 64 {
			// keep the test readable
		}
		return fmt.Sprintf("%s{%s}", g.typeStr(t), strings.Join(elems, ", ")), nil
	case *types.Pointer:
		st, ok := u.Elem().Underlying().(*types.Struct)
		if !ok || v.K != KPtr || v.P != nil || len(v.Fs) != 0 {
			break
		}
		vals, err := g.s.getValues([]string{v.T})
		if err != nil {
			return "", err
		}
		if id, _ := modelInt(vals[0]); id == 0 {
			return "nil", nil
		}
		var fields []string
		for i := 0; i < st.NumFields(); i++ {
			fld := st.Field(i)
			loc := &PtrInfo{Heap: structHeapPrefix(u.Elem()), Base: []string{v.T}, Path: []PathElem{{Field: fld.Name()}}, Ty: fld.Type()}
			g.f.pure++
			fv := g.f.load(g.f.entry, &Val{K: KPtr, Ty: types.NewPointer(fld.Type()), P: loc}, fld.Type())
			g.f.pure--
			s, err := g.value(fv, fld.Type())
			if err != nil {
				return "", fmt.Errorf("field %s: %v", fld.Name(), err)
			}
			fields = append(fields, fld.Name()+": "+s)
		}
		return fmt.Sprintf("&%s{%s}", g.typeStr(u.Elem()), strings.Join(fields, ", ")), nil
	case *types.Struct:
		if v.K != KStruct {
			break
		}
		var fields []string
		for i := 0; i < u.NumFields(); i++ {
			s, err := g.value(v.Fs[i], u.Field(i).Type())
			if err != nil {
				return "", err
			}
			fields = append(fields, u.Field(i).Name()+": "+s)
		}
		return fmt.Sprintf("%s{%s}", g.typeStr(t), strings.Join(fields, ", ")), nil
	case *types.Interface, *types.Signature, *types.Map:
		var tt string
		switch v.K {
		case KIface:
			tt = v.Fs[0].T
		case KMap, KFunc:
			tt = v.T
		}
		if tt != "" {
			vals, err := g.s.getValues([]string{tt})
			if err == nil {
				if n, _ := modelInt(vals[0]); n == 0 {
					return "nil", nil
				}
			}
		}
		return "", fmt.Errorf("cannot construct a non-nil %s from the model", g.typeStr(t))
	}
	return "", fmt.Errorf("cannot construct a value of type %s", g.typeStr(t))
}

// replay tries to reproduce the failure of o on the real code.
func replayObligation(o *Obligation, eng *Engine, repo string) {
	f := o.fv
	if f == nil || f.fn == nil || o.Expect != "unsat" {
		return
	}
	fn := f.fn
	var log strings.Builder
	defer func() {
		o.replayLog = log.String()
	}()
	defer func() {
		if r := recover(); r != nil {
			fmt.Fprintf(&log, "replay aborted: %v\n", r)
		}
	}()
	for _, p := range fn.Params {
		f.predeclare(p.Type(), 0)
	}
	sizes := f.sizeTerms()
	type attempt struct {
		stripped bool
		bound    int64
	}
	var attempts []attempt
	for _, b := range []int64{24, 300, 5000} {
		attempts = append(attempts, attempt{false, b}, attempt{true, b})
	}
	for _, at := range attempts {
		stripped := at.stripped
		if o.Status == "unknown" && !stripped {
			continue // the full query is known not to produce a model in time
		}
		s, res, err := startZ3(o.candidateQuery(stripped, sizes, at.bound), 10)
		if err != nil {
			fmt.Fprintf(&log, "cannot start solver: %v\n", err)
			return
		}
		if res != "sat" {
			fmt.Fprintf(&log, "candidate query (quantifiers stripped=%v): %s\n", stripped, res)
			s.close()
			continue
		}
		g := &goBuilder{f: f, s: s, pkg: fn.Pkg.Pkg}
		var args []string
		var failed error
		for _, p := range fn.Params {
			if !g.importsOK(p.Type()) {
				failed = fmt.Errorf("parameter %s has a type from another package", p.Name())
				break
			}
			a, err := g.value(f.regs[p], p.Type())
			if err != nil {
				failed = fmt.Errorf("parameter %s: %v", p.Name(), err)
				break
			}
			args = append(args, a)
		}
		s.close()
		if failed != nil {
			fmt.Fprintf(&log, "model (quantifiers stripped=%v) cannot be turned into Go values: %v\n", stripped, failed)
			continue
		}
		test, name := replayTestSource(f, o, args)
		o.replayTest = test
		out, failedRun := runReplayTest(repo, fn, test, name)
		fmt.Fprintf(&log, "--- inputs (quantifiers stripped=%v): %s\n%s\n", stripped, strings.Join(args, " ; "), out)
		if failedRun {
			o.replayed = true
			return
		}
	}
}

// replayTestSource generates an in-package test calling the real function.
func replayTestSource(f *FuncVC, o *Obligation, args []string) (string, string) {
	fn := f.fn
	name := "TestGvcReplay"
	var sb strings.Builder
	fmt.Fprintf(&sb, "package %s\n\nimport \"testing\"\n\n", fn.Pkg.Pkg.Name())
	fmt.Fprintf(&sb, "// generated by gvc replay for obligation %s\n", strings.ReplaceAll(o.Name, "\n", " "))
	fmt.Fprintf(&sb, "func %s(t *testing.T) {\n", name)
	sb.WriteString("\tdefer func() {\n\t\tif r := recover(); r != nil {\n\t\t\tt.Fatalf(\"GVC-REPLAY-PANIC: %v\", r)\n\t\t}\n\t}()\n")
	call := ""
	sig := fn.Signature
	if sig.Recv() != nil {
		fmt.Fprintf(&sb, "\trecv := %s\n", args[0])
		call = "recv." + fn.Name() + "(" + strings.Join(args[1:], ", ") + ")"
	} else {
		call = fn.Name() + "(" + strings.Join(args, ", ") + ")"
	}
	n := sig.Results().Len()
	if n == 0 {
		fmt.Fprintf(&sb, "\t%s\n", call)
	} else {
		var rs []string
		for i := 0; i < n; i++ {
			rs = append(rs, fmt.Sprintf("r%d", i))
		}
		fmt.Fprintf(&sb, "\t%s := %s\n", strings.Join(rs, ", "), call)
		for _, r := range rs {
			fmt.Fprintf(&sb, "\t_ = %s\n", r)
		}
		if o.Kind == "post" && f.con != nil {
			// evaluate the violated postcondition when it is plain Go over results and parameters
			if g := postAsGo(f, o, rs); g != "" {
				fmt.Fprintf(&sb, "\tif !(%s) {\n\t\tt.Fatalf(\"GVC-REPLAY-POST: postcondition violated: %%s\", %q)\n\t}\n", g, o.Src)
			}
		}
	}
	sb.WriteString("}\n")
	return sb.String(), name
}

var plainGo = regexp.MustCompile(`^[A-Za-z0-9_ ().,<>=!&|+\-*/%\[\]:]+$`)

// postAsGo renders simple postconditions (no old/forall/ghost/spec) as Go.
func postAsGo(f *FuncVC, o *Obligation, results []string) string {
	src := o.Src
	for _, bad := range []string{"old(", "forall", "exists", "==>", "implies(", "fresh(", "ref(", "be16(", "be32(", "is(", "ite("} {
		if strings.Contains(src, bad) {
			return ""
		}
	}
	if !plainGo.MatchString(src) {
		return ""
	}
	for name := range f.eng.cs.Specs {
		if strings.Contains(src, name+"(") {
			return ""
		}
	}
	// the parameters keep their names only if the test declares them; it does
	// not, so only postconditions over results are rendered
	for _, p := range f.fn.Params {
		if regexp.MustCompile(`\b` + regexp.QuoteMeta(p.Name()) + `\b`).MatchString(src) {
			return ""
		}
	}
	for i, r := range f.con.Results {
		if i < len(results) {
			src = regexp.MustCompile(`\b`+regexp.QuoteMeta(r)+`\b`).ReplaceAllString(src, results[i])
		}
	}
	return src
}

func runReplayTest(repo string, fn *ssa.Function, test, name string) (string, bool) {
	dir, err := os.MkdirTemp("", "gvc-replay-")
	if err != nil {
		return err.Error(), false
	}
	defer os.RemoveAll(dir)
	pkgPath := fn.Pkg.Pkg.Path()
	rel := strings.TrimPrefix(strings.TrimPrefix(pkgPath, modPath), "/")
	pkgDir := filepath.Join(repo, rel)
	testFile := filepath.Join(dir, "zz_gvc_replay_test.go")
	os.WriteFile(testFile, []byte(test), 0o644)
	ov := map[string]map[string]string{"Replace": {filepath.Join(pkgDir, "zz_gvc_replay_test.go"): testFile}}
	data, _ := json.Marshal(ov)
	ovFile := filepath.Join(dir, "overlay.json")
	os.WriteFile(ovFile, data, 0o644)
	cmd := exec.Command("go", "test", "-overlay", ovFile, "-vet=off", "-count=1", "-timeout", "60s", "-run", "^"+name+"$", ".")
	cmd.Dir = pkgDir
	cmd.Env = append(os.Environ(), "GOFLAGS=-mod=mod", "GOPROXY=off", "GOSUMDB=off", "GOTOOLCHAIN=local")
	out, _ := cmd.CombinedOutput()
	s := string(out)
	if len(s) > 4000 {
		s = s[:4000]
	}
	failed := strings.Contains(s, "GVC-REPLAY-PANIC") || strings.Contains(s, "GVC-REPLAY-POST") || strings.Contains(s, "panic: test timed out")
	return s, failed
}

func cmdReplay(args []string) {
	if len(args) != 1 {
		usage()
	}
	data, err := os.ReadFile(args[0])
	if err != nil {
		fmt.Fprintln(os.Stderr, err)
		os.Exit(2)
	}
	var rep map[string]interface{}
	if err := json.Unmarshal(data, &rep); err != nil {
		fmt.Fprintln(os.Stderr, err)
		os.Exit(2)
	}
	fmt.Printf("obligation: %v\nfunction:   %v\nstatus:     %v\n", rep["obligation"], rep["function"], rep["status"])
	test, _ := rep["replay_test"].(string)
	if test == "" {
		fmt.Println("no replay test recorded (no-failing-input-found); solver output:")
		fmt.Println(rep["solver_output"])
		os.Exit(1)
	}
	// re-run the recorded test against the current tree
	eng, err := loadEngine("/repo", verifDir+"/assumed", nil)
	if err != nil {
		fmt.Fprintln(os.Stderr, err)
		os.Exit(2)
	}
	fname, _ := rep["function"].(string)
	for fnObj := range eng.byFunc {
		fn := eng.prog.FuncValue(fnObj)
		if fn != nil && shortFuncName(fn) == fname {
			out, failed := runReplayTest("/repo", fn, test, "TestGvcReplay")
			fmt.Println(out)
			if failed {
				fmt.Println("replay: the failure reproduces on the current tree")
				os.Exit(1)
			}
			fmt.Println("replay: the failure does not reproduce on the current tree")
			os.Exit(0)
		}
	}
	fmt.Println("function not found")
	os.Exit(2)
}

// predeclare makes sure the entry heaps reachable from a value of type t are
// declared, so that the model can be queried for them.
func (f *FuncVC) predeclare(t types.Type, depth int) {
	if depth > 3 {
		return
	}
	switch u := t.Underlying().(type) {
	case *types.Slice:
		for _, l := range leavesOfType(u.Elem()) {
			f.heap(f.entry, elemHeapPrefix(u.Elem())+l.Path, arraySort(2, l.Sort))
		}
		f.predeclare(u.Elem(), depth+1)
	case *types.Pointer:
		if st, ok := u.Elem().Underlying().(*types.Struct); ok {
			for _, l := range leavesOfType(u.Elem()) {
				f.heap(f.entry, structHeapPrefix(u.Elem())+l.Path, arraySort(1, l.Sort))
			}
			for i := 0; i < st.NumFields(); i++ {
				f.predeclare(st.Field(i).Type(), depth+1)
			}
		}
	case *types.Struct:
		for i := 0; i < u.NumFields(); i++ {
			f.predeclare(u.Field(i).Type(), depth+1)
		}
	}
}
