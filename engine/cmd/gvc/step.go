package main

import (
	"regexp"
	"strconv"
	"strings"
	"fmt"
	"go/token"
	"go/types"
	"math/big"

	"golang.org/x/tools/go/ssa"
)

// val returns the symbolic value of an SSA operand.
func (f *FuncVC) val(st *State, v ssa.Value) *Val {
	switch x := v.(type) {
	case *ssa.Const:
		if x.Value == nil {
			return zeroVal(x.Type())
		}
		return f.fromConstant(x.Value, x.Type())
	case *ssa.Global:
		return &Val{K: KPtr, Ty: x.Type(), P: &PtrInfo{Global: x, Ty: x.Type().(*types.Pointer).Elem()}}
	case *ssa.Function:
		// a function constant has an identity (non-zero), so it can be stored
		id := sym("fnval:" + x.String())
		if !f.sc.declared[id] {
			f.sc.declare(id, "Int")
			f.sc.assert(cmp("<", id, "0"))
		}
		return &Val{K: KFunc, Ty: x.Type(), Fn: &Closure{Fn: x}, T: id}
	case *ssa.FreeVar:
		if r, ok := f.regs[v]; ok {
			return r
		}
		f.unsup("free variable " + x.Name())
		return f.freshVal(x.Type(), "freevar")
	case *ssa.Builtin:
		return &Val{K: KFunc, Ty: x.Type()}
	}
	if r, ok := f.regs[v]; ok {
		return r
	}
	f.unsup(fmt.Sprintf("use of undefined value %s (%T)", v.Name(), v))
	r := f.freshVal(v.Type(), "undef")
	f.regs[v] = r
	return r
}

func (f *FuncVC) isLocal(a *ssa.Alloc) bool {
	if r, ok := f.localAlloc[a]; ok {
		return r
	}
	ok := true
	var check func(v ssa.Value)
	check = func(v ssa.Value) {
		refs := v.Referrers()
		if refs == nil {
			return
		}
		for _, r := range *refs {
			switch r := r.(type) {
			case *ssa.UnOp:
				if r.Op != token.MUL {
					ok = false
				}
			case *ssa.Store:
				if r.Val == v {
					ok = false
				}
			case *ssa.DebugRef:
			case *ssa.FieldAddr:
				check(r)
			case *ssa.IndexAddr:
				check(r)
			default:
				ok = false
			}
			if !ok {
				return
			}
		}
	}
	check(a)
	f.localAlloc[a] = ok
	return ok
}

// allocObject allocates a zero-initialised heap object of type t and returns
// a pointer to it.
func (f *FuncVC) allocObject(st *State, t types.Type, ptrTy types.Type) *Val {
	id := f.alloc(st)
	if _, ok := t.Underlying().(*types.Struct); ok {
		prefix := structHeapPrefix(t)
		for _, l := range leavesOfType(t) {
			hn := prefix + l.Path
			sort := arraySort(1, l.Sort)
			h := f.heap(st, hn, sort)
			f.setHeap(st, hn, sort, store(h, id, zeroLeaf(l)))
		}
		f.initGhosts(st, t, id)
		return &Val{K: KPtr, Ty: ptrTy, T: id}
	}
	et := t
	if at, ok := t.Underlying().(*types.Array); ok {
		et = at.Elem()
	}
	prefix := elemHeapPrefix(et)
	for _, l := range leavesOfType(et) {
		hn := prefix + l.Path
		sort := arraySort(2, l.Sort)
		h := f.heap(st, hn, sort)
		f.setHeap(st, hn, sort, store(h, id, zeroLeaf(Leaf{Sort: arraySort(1, l.Sort)})))
	}
	return &Val{K: KPtr, Ty: ptrTy, Fs: []*Val{vInt(id, nil), vInt("0", nil)}}
}

func (f *FuncVC) step(st *State, ins ssa.Instruction) {
	if p := ins.Pos(); p.IsValid() {
		f.curPos = p
	}
	if f.con != nil && len(f.con.Covers) > 0 && f.pure == 0 {
		if _, isDbg := ins.(*ssa.DebugRef); !isDbg && ins.Pos().IsValid() {
			line := f.eng.sourceLine(ins.Pos())
			for _, c := range f.con.Covers {
				if !f.covered[c] && strings.Contains(line, c) {
					f.covered[c] = true
					// the statement must be reachable under the contracts: "unsat" is a violation
					f.obls = append(f.obls, &Obligation{Name: f.name() + "#reach:" + c, Kind: "reach", Func: f.name(), Prefix: len(f.sc.cmds), PC: st.pc, Goal: "false", Expect: "sat", fv: f})
				}
			}
		}
	}
	switch x := ins.(type) {
	case *ssa.DebugRef:
		return
	case *ssa.Alloc:
		et := x.Type().(*types.Pointer).Elem()
		if f.isLocal(x) {
			st.cells[x] = zeroVal(et)
			f.regs[x] = &Val{K: KPtr, Ty: x.Type(), P: &PtrInfo{Local: x, Ty: et}}
		} else {
			f.regs[x] = f.allocObject(st, et, x.Type())
		}
	case *ssa.Store:
		f.storeTo(st, f.val(st, x.Addr), f.val(st, x.Val), x.Val.Type())
	case *ssa.UnOp:
		f.regs[x] = f.unop(st, x)
	case *ssa.BinOp:
		f.regs[x] = f.binop(st, x.Op, f.val(st, x.X), f.val(st, x.Y), x.X.Type(), x.Type())
	case *ssa.FieldAddr:
		f.regs[x] = f.fieldAddr(st, x)
	case *ssa.Field:
		v := f.val(st, x.X)
		if v.K != KStruct || x.Field >= len(v.Fs) {
			f.unsup("field of non-struct value")
			f.regs[x] = f.freshVal(x.Type(), "field")
		} else {
			f.regs[x] = v.Fs[x.Field]
		}
	case *ssa.IndexAddr:
		f.regs[x] = f.indexAddr(st, x)
	case *ssa.Index:
		f.regs[x] = f.index(st, x)
	case *ssa.Slice:
		f.regs[x] = f.sliceOp(st, x)
	case *ssa.MakeSlice:
		f.regs[x] = f.makeSlice(st, x)
	case *ssa.Convert:
		f.regs[x] = f.convert(st, f.val(st, x.X), x.X.Type(), x.Type())
	case *ssa.ChangeType:
		v := copyVal(f.val(st, x.X))
		retype(v, x.Type())
		f.regs[x] = v
	case *ssa.MakeInterface:
		f.regs[x] = f.makeInterface(st, f.val(st, x.X), x.X.Type(), x.Type())
	case *ssa.ChangeInterface:
		v := copyVal(f.val(st, x.X))
		v.Ty = x.Type()
		f.regs[x] = v
	case *ssa.TypeAssert:
		f.regs[x] = f.typeAssert(st, x)
	case *ssa.Extract:
		t := f.val(st, x.Tuple)
		if t.K != KTuple || x.Index >= len(t.Fs) {
			f.unsup("extract from non-tuple")
			f.regs[x] = f.freshVal(x.Type(), "extract")
		} else {
			f.regs[x] = t.Fs[x.Index]
		}
	case *ssa.Phi:
		f.regs[x] = f.phi(st, x)
	case *ssa.Call:
		f.regs[x] = f.call(st, x)
	case *ssa.MakeMap:
		f.regs[x] = f.makeMap(st, x)
	case *ssa.MapUpdate:
		f.mapUpdate(st, x)
	case *ssa.Lookup:
		f.regs[x] = f.lookup(st, x)
	case *ssa.Range:
		f.regs[x] = f.rangeInit(st, x)
	case *ssa.Next:
		f.regs[x] = f.rangeNext(st, x)
	case *ssa.MakeClosure:
		c := &Closure{Fn: x.Fn.(*ssa.Function)}
		for _, b := range x.Bindings {
			c.Bindings = append(c.Bindings, f.val(st, b))
		}
		// the closure object gets an identity so that it can be stored
		f.regs[x] = &Val{K: KFunc, Ty: x.Type(), Fn: c, T: f.alloc(st)}
	case *ssa.RunDefers:
		// no defers admitted (checked up front)
	case *ssa.Defer, *ssa.Go, *ssa.Send, *ssa.Select:
		f.unsup(fmt.Sprintf("%T", ins))
	case *ssa.Panic:
		f.panicInstr(st, x)
		st.dead = true
	case *ssa.SliceToArrayPointer:
		f.unsup("slice to array pointer")
		f.regs[x] = f.freshVal(x.Type(), "s2a")
	case *ssa.Return, *ssa.If, *ssa.Jump:
		// handled by the block driver
	default:
		f.unsup(fmt.Sprintf("instruction %T", ins))
		if v, ok := ins.(ssa.Value); ok {
			f.regs[v] = f.freshVal(v.Type(), "unsup")
		}
	}
}

func retype(v *Val, t types.Type) {
	v.Ty = t
	switch v.K {
	case KStruct:
		if st, ok := t.Underlying().(*types.Struct); ok && st.NumFields() == len(v.Fs) {
			for i := range v.Fs {
				retype(v.Fs[i], st.Field(i).Type())
			}
		}
	}
}

func (f *FuncVC) unop(st *State, x *ssa.UnOp) *Val {
	v := f.val(st, x.X)
	switch x.Op {
	case token.MUL:
		if v.K == KPtr && v.P == nil {
			f.nilCheck(st, v)
		}
		return f.load(st, v, x.Type())
	case token.NOT:
		return vBool(not(v.T))
	case token.SUB:
		if v.K == KInt {
			lo, hi := bounds(v)
			var nlo, nhi *big.Int
			if lo != nil && hi != nil {
				nlo, nhi = new(big.Int).Neg(hi), new(big.Int).Neg(lo)
			}
			return f.wrapTo(arith("-", "0", v.T), nlo, nhi, x.Type())
		}
		return f.floatOp(st, "neg", x.Type(), v)
	case token.XOR:
		// ^x = -x-1 (two's complement) wrapped to the type
		return f.wrapTo("(- (- 0 "+v.T+") 1)", nil, nil, x.Type())
	}
	f.unsup("unary " + x.Op.String())
	return f.freshVal(x.Type(), "unop")
}

func (f *FuncVC) nilCheck(st *State, p *Val) {
	if p.P != nil {
		return
	}
	t := p.T
	if len(p.Fs) == 2 {
		t = p.Fs[0].T
	}
	if _, ok := litInt(t); !ok {
		// pointers produced by allocation are named obj!k and provably non-zero
	}
	f.oblige(st, "nil", f.srcAt(f.curPos), not(eq(t, "0")))
}

func (f *FuncVC) floatOp(st *State, name string, ty types.Type, args ...*Val) *Val {
	// D-FLOAT: float arithmetic is uninterpreted but functional
	fn := "flt." + name
	var as []string
	var sorts []string
	for _, a := range args {
		as = append(as, a.T)
		sorts = append(sorts, sortOfKind(a.K))
	}
	res := sortOfKind(kindOf(ty))
	f.sc.declareFun(fn, sorts, res)
	t := "(" + fn
	for _, a := range as {
		t += " " + a
	}
	t += ")"
	return &Val{K: kindOf(ty), Ty: ty, T: t}
}

func (f *FuncVC) binop(st *State, op token.Token, x, y *Val, opTy, resTy types.Type) *Val {
	if x.K == KUnsupported || y.K == KUnsupported {
		f.unsup("operand: " + x.Why + y.Why)
		return f.freshVal(resTy, "binop")
	}
	switch op {
	case token.EQL, token.NEQ:
		e := f.equal(st, x, y)
		if op == token.NEQ {
			e = not(e)
		}
		return vBool(e)
	}
	switch x.K {
	case KInt:
		switch op {
		case token.LSS:
			return vBool(cmp("<", x.T, y.T))
		case token.LEQ:
			return vBool(cmp("<=", x.T, y.T))
		case token.GTR:
			return vBool(cmp(">", x.T, y.T))
		case token.GEQ:
			return vBool(cmp(">=", x.T, y.T))
		}
		return f.intBinop(st, op, x, y, resTy)
	case KBool:
		switch op {
		case token.AND, token.LAND:
			return vBool(and(x.T, y.T))
		case token.OR, token.LOR:
			return vBool(or(x.T, y.T))
		}
	case KFloat:
		switch op {
		case token.LSS:
			return f.floatOp(st, "lt", types.Typ[types.Bool], x, y)
		case token.LEQ:
			return vBool(or(f.floatOp(st, "lt", types.Typ[types.Bool], x, y).T, eq(x.T, y.T)))
		case token.GTR:
			return f.floatOp(st, "lt", types.Typ[types.Bool], y, x)
		case token.GEQ:
			return vBool(or(f.floatOp(st, "lt", types.Typ[types.Bool], y, x).T, eq(x.T, y.T)))
		case token.ADD:
			return f.floatOp(st, "add", resTy, x, y)
		case token.SUB:
			return f.floatOp(st, "sub", resTy, x, y)
		case token.MUL:
			return f.floatOp(st, "mul", resTy, x, y)
		case token.QUO:
			return f.floatOp(st, "div", resTy, x, y)
		}
	case KStr:
		switch op {
		case token.ADD:
			return &Val{K: KStr, Ty: resTy, T: "(gstr.cat " + x.T + " " + y.T + ")"}
		case token.LSS, token.LEQ, token.GTR, token.GEQ:
			f.sc.declareFun("gstr.lt", []string{"Str", "Str"}, "Bool")
			lt := func(a, b string) string { return "(gstr.lt " + a + " " + b + ")" }
			switch op {
			case token.LSS:
				return vBool(lt(x.T, y.T))
			case token.GTR:
				return vBool(lt(y.T, x.T))
			case token.LEQ:
				return vBool(not(lt(y.T, x.T)))
			case token.GEQ:
				return vBool(not(lt(x.T, y.T)))
			}
		}
	}
	f.unsup(fmt.Sprintf("binary %s on kind %d", op, x.K))
	return f.freshVal(resTy, "binop")
}

// equal returns the SMT term for Go equality x == y.
func (f *FuncVC) equal(st *State, x, y *Val) string {
	switch x.K {
	case KInt, KBool, KFloat, KStr, KMap, KSeq:
		if y.K == KPtr || y.K == KSlice || y.K == KIface { // nil constant typed oddly
			break
		}
		return eq(x.T, y.T)
	}
	if x.K != y.K {
		// comparison with an untyped nil
		if isNilVal(y) {
			return f.isNil(x)
		}
		if isNilVal(x) {
			return f.isNil(y)
		}
		f.unsup("comparison of different kinds")
		return f.sc.fresh("cmp")
	}
	switch x.K {
	case KPtr:
		if x.P != nil || y.P != nil {
			if isNilVal(y) || isNilVal(x) {
				return "false"
			}
			f.unsup("comparison of interior pointers")
			n := f.sc.fresh("cmp")
			f.sc.declare(n, "Bool")
			return n
		}
		if len(x.Fs) == 2 && len(y.Fs) == 2 {
			if isNilVal(y) {
				return eq(x.Fs[0].T, "0")
			}
			return and(eq(x.Fs[0].T, y.Fs[0].T), eq(x.Fs[1].T, y.Fs[1].T))
		}
		if len(x.Fs) != len(y.Fs) {
			if isNilVal(y) {
				return f.isNil(x)
			}
			return f.isNil(y)
		}
		return eq(x.T, y.T)
	case KSlice:
		// only comparison with nil is legal Go
		if isNilVal(y) {
			return eq(x.Fs[0].T, "0")
		}
		return eq(y.Fs[0].T, "0")
	case KIface:
		return and(eq(x.Fs[0].T, y.Fs[0].T), eq(x.Fs[1].T, y.Fs[1].T))
	case KStruct, KTuple:
		var cs []string
		for i := range x.Fs {
			cs = append(cs, f.equal(st, x.Fs[i], y.Fs[i]))
		}
		return and(cs...)
	case KArr:
		at := x.Ty.Underlying().(*types.Array)
		if at.Len() <= 16 {
			var cs []string
			for i := int64(0); i < at.Len(); i++ {
				cs = append(cs, f.equal(st, f.arrayIndex(x, num(i)), f.arrayIndex(y, num(i))))
			}
			return and(cs...)
		}
		f.unsup("comparison of large arrays")
	case KFunc:
		if isNilVal(y) {
			if x.Fn != nil {
				return "false"
			}
			return eq(x.T, "0")
		}
		if x.T != "" && y.T != "" {
			// function values with identity terms (contracts only: Go itself
			// compares functions with nil only)
			return eq(x.T, y.T)
		}
	}
	f.unsup("comparison of unsupported kind")
	n := f.sc.fresh("cmp")
	f.sc.declare(n, "Bool")
	return n
}

func isNilVal(v *Val) bool {
	switch v.K {
	case KPtr:
		if v.P != nil {
			return false
		}
		if len(v.Fs) == 2 {
			return v.Fs[0].T == "0"
		}
		return v.T == "0"
	case KSlice:
		return v.Fs[0].T == "0"
	case KIface:
		return v.Fs[0].T == "0"
	case KMap:
		return v.T == "0"
	case KFunc:
		return v.Fn == nil && v.T == "0"
	}
	return false
}

func (f *FuncVC) isNil(v *Val) string {
	switch v.K {
	case KPtr:
		if v.P != nil {
			return "false"
		}
		if len(v.Fs) == 2 {
			return eq(v.Fs[0].T, "0")
		}
		return eq(v.T, "0")
	case KSlice, KIface:
		return eq(v.Fs[0].T, "0")
	case KMap:
		return eq(v.T, "0")
	case KFunc:
		if v.Fn != nil {
			return "false"
		}
		return eq(v.T, "0")
	}
	f.unsup("nil test on unsupported kind")
	return "false"
}

func (f *FuncVC) fieldAddr(st *State, x *ssa.FieldAddr) *Val {
	p := f.val(st, x.X)
	pt := x.X.Type().Underlying().(*types.Pointer)
	sty := pt.Elem().Underlying().(*types.Struct)
	fld := sty.Field(x.Field)
	if p.K != KPtr {
		f.unsup("field address of non-pointer")
		return &Val{K: KUnsupported, Ty: x.Type()}
	}
	var loc PtrInfo
	if p.P != nil {
		loc = *p.P
		loc.Path = append(append([]PathElem(nil), p.P.Path...), PathElem{Field: fld.Name()})
	} else {
		if len(p.Fs) == 2 {
			f.unsup("field address through element pointer")
			return &Val{K: KUnsupported, Ty: x.Type()}
		}
		f.nilCheck(st, p)
		loc = PtrInfo{Heap: structHeapPrefix(pt.Elem()), Base: []string{p.T}, Path: []PathElem{{Field: fld.Name()}}}
	}
	loc.Ty = fld.Type()
	return &Val{K: KPtr, Ty: x.Type(), P: &loc}
}

func (f *FuncVC) indexAddr(st *State, x *ssa.IndexAddr) *Val {
	base := f.val(st, x.X)
	idx := f.val(st, x.Index)
	src := f.srcAt(x.Pos())
	switch bt := x.X.Type().Underlying().(type) {
	case *types.Slice:
		if base.K != KSlice {
			f.unsup("index of non-slice value")
			return &Val{K: KUnsupported, Ty: x.Type()}
		}
		f.oblige(st, "index", src, and(cmp("<=", "0", idx.T), cmp("<", idx.T, base.Fs[2].T)))
		et := bt.Elem()
		loc := &PtrInfo{Heap: elemHeapPrefix(et), Base: []string{base.Fs[0].T, f.sc.define("ix", "Int", arith("+", base.Fs[1].T, idx.T))}, Ty: et}
		return &Val{K: KPtr, Ty: x.Type(), P: loc}
	case *types.Pointer:
		at := bt.Elem().Underlying().(*types.Array)
		f.oblige(st, "index", src, and(cmp("<=", "0", idx.T), cmp("<", idx.T, num(at.Len()))))
		if base.P != nil {
			loc := *base.P
			loc.Path = append(append([]PathElem(nil), base.P.Path...), PathElem{Index: idx.T})
			loc.Ty = at.Elem()
			return &Val{K: KPtr, Ty: x.Type(), P: &loc}
		}
		if len(base.Fs) == 2 {
			f.nilCheck(st, base)
			loc := &PtrInfo{Heap: elemHeapPrefix(at.Elem()), Base: []string{base.Fs[0].T, arith("+", base.Fs[1].T, idx.T)}, Ty: at.Elem()}
			return &Val{K: KPtr, Ty: x.Type(), P: loc}
		}
	}
	f.unsup("index address of unsupported base")
	return &Val{K: KUnsupported, Ty: x.Type()}
}

func (f *FuncVC) index(st *State, x *ssa.Index) *Val {
	base := f.val(st, x.X)
	idx := f.val(st, x.Index)
	src := f.srcAt(x.Pos())
	switch base.K {
	case KArr:
		at := base.Ty.Underlying().(*types.Array)
		f.oblige(st, "index", src, and(cmp("<=", "0", idx.T), cmp("<", idx.T, num(at.Len()))))
		v := f.arrayIndex(base, idx.T)
		f.nameAndRange(st, v, "ix")
		return v
	case KStr:
		f.oblige(st, "index", src, and(cmp("<=", "0", idx.T), cmp("<", idx.T, "(gstr.len "+base.T+")")))
		t := f.sc.define("ch", "Int", "(gstr.at "+base.T+" "+idx.T+")")
		f.fact(st, and(cmp("<=", "0", t), cmp("<=", t, "255")))
		return &Val{K: KInt, Ty: x.Type(), T: t, Lo: big.NewInt(0), Hi: big.NewInt(255)}
	}
	f.unsup("index of unsupported value")
	return f.freshVal(x.Type(), "index")
}

func (f *FuncVC) sliceOp(st *State, x *ssa.Slice) *Val {
	base := f.val(st, x.X)
	src := f.srcAt(x.Pos())
	var lo, hi, mx *Val
	if x.Low != nil {
		lo = f.val(st, x.Low)
	}
	if x.High != nil {
		hi = f.val(st, x.High)
	}
	if x.Max != nil {
		mx = f.val(st, x.Max)
	}
	loT := "0"
	if lo != nil {
		loT = lo.T
	}
	switch bt := x.X.Type().Underlying().(type) {
	case *types.Slice:
		if base.K != KSlice {
			break
		}
		ref, off, ln, cp := base.Fs[0].T, base.Fs[1].T, base.Fs[2].T, base.Fs[3].T
		hiT := ln
		if hi != nil {
			hiT = hi.T
		}
		mxT := cp
		if mx != nil {
			mxT = mx.T
		}
		f.oblige(st, "slice", src, and(cmp("<=", "0", loT), cmp("<=", loT, hiT), cmp("<=", hiT, mxT), cmp("<=", mxT, cp)))
		r := &Val{K: KSlice, Ty: x.Type()}
		r.Fs = []*Val{vInt(ref, nil), vInt(f.sc.define("off", "Int", arith("+", off, loT)), nil),
			vInt(f.sc.define("len", "Int", arith("-", hiT, loT)), nil), vInt(f.sc.define("cap", "Int", arith("-", mxT, loT)), nil)}
		r.Fs[2].Lo = big.NewInt(0)
		return r
	case *types.Basic: // string
		hiT := "(gstr.len " + base.T + ")"
		if hi != nil {
			hiT = hi.T
		}
		f.oblige(st, "slice", src, and(cmp("<=", "0", loT), cmp("<=", loT, hiT), cmp("<=", hiT, "(gstr.len "+base.T+")")))
		f.sc.declareFun("gstr.sub", []string{"Str", "Int", "Int"}, "Str")
		t := f.sc.define("sub", "Str", "(gstr.sub "+base.T+" "+loT+" "+hiT+")")
		f.fact(st, eq("(gstr.len "+t+")", arith("-", hiT, loT)))
		q := f.sc.fresh("k")
		f.fact(st, fmt.Sprintf("(forall ((%s Int)) (! (=> (and (<= 0 %s) (< %s (gstr.len %s))) (= (gstr.at %s %s) (gstr.at %s (+ %s %s)))) :pattern ((gstr.at %s %s))))", q, q, q, t, t, q, base.T, q, loT, t, q))
		return &Val{K: KStr, Ty: x.Type(), T: t}
	case *types.Pointer:
		at := bt.Elem().Underlying().(*types.Array)
		n := num(at.Len())
		hiT := n
		if hi != nil {
			hiT = hi.T
		}
		mxT := n
		if mx != nil {
			mxT = mx.T
		}
		f.oblige(st, "slice", src, and(cmp("<=", "0", loT), cmp("<=", loT, hiT), cmp("<=", hiT, mxT), cmp("<=", mxT, n)))
		if base.P == nil && len(base.Fs) == 2 {
			r := &Val{K: KSlice, Ty: x.Type()}
			r.Fs = []*Val{vInt(base.Fs[0].T, nil), vInt(arith("+", base.Fs[1].T, loT), nil), vInt(arith("-", hiT, loT), nil), vInt(arith("-", mxT, loT), nil)}
			r.Fs[2].Lo = big.NewInt(0)
			return r
		}
		// an array inside a struct or a local cell cannot back a slice in this
		// heap model; when the slice is only converted to a string (read
		// once, immediately) a snapshot of the array serves
		if base.P != nil && sliceOnlyConverted(x) {
			ls := leavesOfType(at.Elem())
			if len(ls) == 1 {
				av := f.load(st, base, bt.Elem())
				if av != nil && av.K == KArr && len(av.Fs) == 1 && av.Fs[0].T != "" && (av.Fs[0].K == KInt || av.Fs[0].K == KBool) {
					id := f.alloc(st)
					hn := elemHeapPrefix(at.Elem()) + ls[0].Path
					hs := arraySort(2, ls[0].Sort)
					f.setHeap(st, hn, hs, store(f.heap(st, hn, hs), id, av.Fs[0].T))
					r := &Val{K: KSlice, Ty: x.Type()}
					r.Fs = []*Val{vInt(id, nil), vInt(loT, nil), vInt(arith("-", hiT, loT), nil), vInt(arith("-", mxT, loT), nil)}
					r.Fs[2].Lo = big.NewInt(0)
					return r
				}
			}
		}
	}
	f.unsup("slice of unsupported base")
	return f.freshTyped(st, x.Type(), "slice")
}

func sliceOnlyConverted(x *ssa.Slice) bool {
	refs := x.Referrers()
	if refs == nil || len(*refs) == 0 {
		return false
	}
	for _, r := range *refs {
		switch r := r.(type) {
		case *ssa.DebugRef:
		case *ssa.Convert:
			b, ok := r.Type().Underlying().(*types.Basic)
			if !ok || b.Info()&types.IsString == 0 {
				return false
			}
		default:
			return false
		}
	}
	return true
}

// A-MEM: no slice has more than 2^40 elements (every make is checked against
// this bound, so the assumption is maintained by verified code), and a single
// allocation is at most 2^48 bytes (the gc runtime limit on amd64).
const maxElems = "1099511627776"
const maxAllocBytes = "281474976710656"

func (f *FuncVC) makeSlice(st *State, x *ssa.MakeSlice) *Val {
	ln := f.val(st, x.Len)
	cp := f.val(st, x.Cap)
	src := f.srcAt(x.Pos())
	et := x.Type().Underlying().(*types.Slice).Elem()
	esz := types.SizesFor("gc", "amd64").Sizeof(et)
	if esz < 1 {
		esz = 1
	}
	f.oblige(st, "make", src, and(cmp("<=", "0", ln.T), cmp("<=", ln.T, cp.T), cmp("<=", cp.T, maxElems), cmp("<=", arith("*", cp.T, num(esz)), maxAllocBytes)))
	p := f.allocObject(st, types.NewArray(et, 0), types.NewPointer(types.NewArray(et, 0)))
	r := &Val{K: KSlice, Ty: x.Type()}
	r.Fs = []*Val{vInt(p.Fs[0].T, nil), vInt("0", nil), vInt(ln.T, nil), vInt(cp.T, nil)}
	r.Fs[2].Lo = big.NewInt(0)
	return r
}

func (f *FuncVC) convert(st *State, v *Val, from, to types.Type) *Val {
	fk, tk := kindOf(from), kindOf(to)
	switch {
	case fk == KInt && tk == KInt:
		lo, hi := bounds(v)
		r := f.wrapTo(v.T, lo, hi, to)
		r.LowZero = v.LowZero
		if tb := basicOf(to); tb != nil && tb.Kind() == types.Uint8 && f.pure == 0 && (lo == nil || hi == nil || hi.BitLen() > 8) {
			// byte(x): the lowest byte of the byte decomposition of x
			if bs := f.byteDecomp(v); bs != nil {
				r.T = bs[0]
				r.Lo, r.Hi = big.NewInt(0), big.NewInt(255)
			}
		}
		if f.con != nil && f.con.Encoder && f.pure == 0 {
			// narrowing conversions in an encoder must not lose information
			if tlo, thi, ok := intRangeOf(to); ok {
				if lo == nil || hi == nil || lo.Cmp(tlo) < 0 || hi.Cmp(thi) > 0 {
					switch f.byteExtractKind(from) {
					case "low":
						// low byte of a multi-byte big-endian write: the top byte carries the obligation
					case "top":
						// top byte of a k-byte write: the value must fit into k bytes
						// (two's complement for signed sources)
						f.oblige(st, "lossless", f.srcAt(f.curPos), and(cmp("<=", "(- 128)", v.T), cmp("<=", v.T, "255")))
					default:
						f.oblige(st, "lossless", f.srcAt(f.curPos), and(cmp("<=", numBig(tlo), v.T), cmp("<=", v.T, numBig(thi))))
					}
				}
			}
		}
		return r
	case fk == KInt && tk == KFloat:
		f.sc.declareFun("flt.of_int", []string{"Int"}, "Flt")
		if !f.sc.declared["flt.of_int.ax"] {
			f.sc.declared["flt.of_int.ax"] = true
			f.sc.assert("(= (flt.of_int 0) flt.zero)")
		}
		return &Val{K: KFloat, Ty: to, T: "(flt.of_int " + v.T + ")"}
	case fk == KFloat && tk == KInt:
		f.sc.declareFun("flt.to_int", []string{"Flt"}, "Int")
		r := f.wrapTo("(flt.to_int "+v.T+")", nil, nil, to)
		return r
	case fk == KFloat && tk == KFloat:
		if types.Identical(from.Underlying(), to.Underlying()) {
			c := *v
			c.Ty = to
			return &c
		}
		return f.floatOp(st, "cvt"+to.Underlying().String(), to, v)
	case fk == KStr && tk == KSlice:
		// []byte(s): fresh object with the bytes of s
		et := to.Underlying().(*types.Slice).Elem()
		p := f.allocObject(st, types.NewArray(et, 0), types.NewPointer(types.NewArray(et, 0)))
		ref := p.Fs[0].T
		hn := elemHeapPrefix(et)
		sort := arraySort(2, "Int")
		arr := f.sc.fresh("bytes")
		f.sc.declare(arr, "(Array Int Int)")
		q := f.sc.fresh("k")
		f.fact(st, fmt.Sprintf("(forall ((%s Int)) (! (=> (and (<= 0 %s) (< %s (gstr.len %s))) (= (select %s %s) (gstr.at %s %s))) :pattern ((select %s %s))))", q, q, q, v.T, arr, q, v.T, q, arr, q))
		f.setHeap(st, hn, sort, store(f.heap(st, hn, sort), ref, arr))
		ln := "(gstr.len " + v.T + ")"
		r := &Val{K: KSlice, Ty: to, Fs: []*Val{vInt(ref, nil), vInt("0", nil), vInt(ln, nil), vInt(ln, nil)}}
		return r
	case fk == KSlice && tk == KStr:
		et := from.Underlying().(*types.Slice).Elem()
		s := f.sc.fresh("str")
		f.sc.declare(s, "Str")
		f.fact(st, eq("(gstr.len "+s+")", v.Fs[2].T))
		hn := elemHeapPrefix(et)
		h := f.heap(st, hn, arraySort(2, "Int"))
		q := f.sc.fresh("k")
		f.fact(st, fmt.Sprintf("(forall ((%s Int)) (! (=> (and (<= 0 %s) (< %s %s)) (= (gstr.at %s %s) (select (select %s %s) (+ %s %s)))) :pattern ((gstr.at %s %s))))", q, q, q, v.Fs[2].T, s, q, h, v.Fs[0].T, v.Fs[1].T, q, s, q))
		return &Val{K: KStr, Ty: to, T: s}
	case fk == KInt && tk == KStr:
		f.sc.declareFun("gstr.of_rune", []string{"Int"}, "Str")
		return &Val{K: KStr, Ty: to, T: "(gstr.of_rune " + v.T + ")"}
	case fk == tk:
		c := copyVal(v)
		retype(c, to)
		return c
	}
	f.unsup(fmt.Sprintf("conversion %s -> %s", from, to))
	return f.freshTyped(st, to, "conv")
}

// byteExtractKind classifies the narrowing conversion at the current position
// by its source text: byte(T>>k) / byte(T) groups are the idiom for writing T
// as big-endian bytes.  "low": a lower byte of such a group; "top": the byte
// with the largest shift (it decides whether T fits); "": an ordinary narrowing.
var shiftArg = regexp.MustCompile(`^(.*?)>>(\d+)$`)

func (f *FuncVC) byteExtractKind(from types.Type) string {
	nospace := func(t string) string {
		return strings.Join(strings.Fields(t), "")
	}
	src := nospace(f.srcAt(f.curPos)) // e.g. byte(x>>8)
	k := strings.Index(src, "(")
	if k < 0 || !strings.HasSuffix(src, ")") {
		return ""
	}
	arg := src[k+1 : len(src)-1]
	fnSrc := nospace(f.eng.funcSource(f.fn))
	strip := func(t string) string {
		for len(t) >= 2 && t[0] == '(' && matchParen(t, 0) == len(t)-1 {
			t = t[1 : len(t)-1]
		}
		return t
	}
	// shifts applied to the term t anywhere in the function: t>>k or (t)>>k
	shiftsOf := func(t string) []int {
		var out []int
		for _, pat := range []string{regexp.QuoteMeta(t) + `>>(\d+)`, `\(` + regexp.QuoteMeta(t) + `\)>>(\d+)`} {
			re := regexp.MustCompile(pat)
			for _, m := range re.FindAllStringSubmatchIndex(fnSrc, -1) {
				// the match must start at a term boundary
				if m[0] > 0 {
					c := fnSrc[m[0]-1]
					if c == '_' || c == '.' || (c >= '0' && c <= '9') || (c >= 'a' && c <= 'z') || (c >= 'A' && c <= 'Z') {
						continue
					}
				}
				n, _ := strconv.Atoi(fnSrc[m[2]:m[3]])
				out = append(out, n)
			}
		}
		return out
	}
	if m := shiftArg.FindStringSubmatch(arg); m != nil {
		t := strip(m[1])
		n, _ := strconv.Atoi(m[2])
		mx := n
		for _, s := range shiftsOf(t) {
			if s > mx {
				mx = s
			}
		}
		if n < mx {
			return "low"
		}
		// top byte: only an obligation if the source type is wider than the bytes written
		if b := basicOf(from); b != nil {
			if lo, hi, ok := intRange(b); ok {
				bits := hi.BitLen()
				if lo.Sign() < 0 {
					bits++
				}
				if bits <= n+8 {
					return "low"
				}
			}
		}
		return "top"
	}
	if len(shiftsOf(strip(arg))) > 0 {
		return "low"
	}
	return ""
}

func (f *FuncVC) makeInterface(st *State, v *Val, from, to types.Type) *Val {
	tag := f.typeTag(from)
	r := &Val{K: KIface, Ty: to}
	var pay string
	switch {
	case v.K == KPtr && v.P == nil && len(v.Fs) == 0:
		pay = v.T
	case v.K == KUnsupported:
		f.unsup("interface of unsupported value")
		pay = f.alloc(st)
	default:
		// boxed value: fresh box id, content recoverable through unbox functions
		pay = f.alloc(st)
		ls := leavesOfType(from)
		ts, err := leafTerms(v)
		if err == nil && len(ts) == len(ls) {
			for i, l := range ls {
				fn := sym("unbox:" + typeKey(from) + l.Path)
				f.sc.declareFun(fn, []string{"Int"}, l.Sort)
				f.assume(st, eq("("+fn+" "+pay+")", ts[i]))
			}
		}
	}
	r.Fs = []*Val{vInt(tag, nil), vInt(pay, nil)}
	return r
}

func (f *FuncVC) unbox(st *State, pay string, t types.Type) *Val {
	if isStructPtr(t) {
		return &Val{K: KPtr, Ty: t, T: pay}
	}
	v := build(t, func(l Leaf) string {
		fn := sym("unbox:" + typeKey(t) + l.Path)
		f.sc.declareFun(fn, []string{"Int"}, l.Sort)
		return "(" + fn + " " + pay + ")"
	})
	f.nameAndRange(st, v, "unbox")
	return v
}

func (f *FuncVC) typeAssert(st *State, x *ssa.TypeAssert) *Val {
	v := f.val(st, x.X)
	if v.K != KIface {
		f.unsup("type assertion on non-interface value")
		return f.freshVal(x.Type(), "ta")
	}
	var ok string
	var res *Val
	if _, isIface := x.AssertedType.Underlying().(*types.Interface); isIface {
		// interface-to-interface: holds iff non-nil and method set fits (unknown)
		n := f.sc.fresh("implements")
		f.sc.declare(n, "Bool")
		ok = and(not(eq(v.Fs[0].T, "0")), n)
		if it := x.AssertedType.Underlying().(*types.Interface); it.NumMethods() == 0 {
			ok = not(eq(v.Fs[0].T, "0"))
		}
		res = &Val{K: KIface, Ty: x.AssertedType, Fs: v.Fs}
	} else {
		ok = eq(v.Fs[0].T, f.typeTag(x.AssertedType))
		res = f.unbox(st, v.Fs[1].T, x.AssertedType)
	}
	if x.CommaOk {
		return &Val{K: KTuple, Ty: x.Type(), Fs: []*Val{res, vBool(ok)}}
	}
	f.oblige(st, "typeassert", f.srcAt(x.Pos()), ok)
	return res
}

func (f *FuncVC) phi(st *State, x *ssa.Phi) *Val {
	b := x.Block()
	var conds []string
	var vals []*Val
	for i, p := range b.Preds {
		es, ok := f.edgeOut[edge{p, b}]
		if !ok {
			continue
		}
		conds = append(conds, es.cond)
		vals = append(vals, f.val(st, x.Edges[i]))
	}
	if len(vals) == 0 {
		return f.freshVal(x.Type(), "phi")
	}
	return f.mergeVals(conds, vals, "phi")
}

func (f *FuncVC) panicInstr(st *State, x *ssa.Panic) {
	src := f.srcAt(x.Pos())
	if f.con != nil && f.con.MayPanic {
		return
	}
	if f.con != nil && len(f.con.PanicsIf) > 0 {
		// a reachable panic is allowed exactly when the contract says so
		ev := f.entryEval(st)
		var cs []string
		for _, c := range f.con.PanicsIf {
			cs = append(cs, ev.evalBool(c.Expr))
		}
		f.oblige(st, "panic", src, or(cs...))
		return
	}
	f.oblige(st, "panic", src, "false")
}

// initGhosts zero-initialises the ghost state attached to a freshly allocated
// object of named struct type t.
func (f *FuncVC) initGhosts(st *State, t types.Type, id string) {
	named, ok := t.(*types.Named)
	if !ok || named.Obj().Pkg() == nil {
		return
	}
	for _, key := range sortedKeys(f.eng.cs.Specs) {
		sp := f.eng.cs.Specs[key]
		if !sp.Ghost || len(sp.Params) != 1 || !strings.Contains(key, ".") {
			continue
		}
		pt := strings.TrimPrefix(exprString(sp.Params[0].Type), "*")
		if k := strings.LastIndex(pt, "."); k >= 0 {
			pt = pt[k+1:]
		}
		if pt != named.Obj().Name() || !strings.HasSuffix(named.Obj().Pkg().Path(), sp.PkgPath) {
			continue
		}
		rs := "int"
		if sp.ResType != nil {
			rs = exprString(sp.ResType)
		}
		switch rs {
		case "bool":
			f.setHeap(st, "G:"+sp.Name, "(Array Int Bool)", store(f.heap(st, "G:"+sp.Name, "(Array Int Bool)"), id, "false"))
		case "seq":
		default:
			f.setHeap(st, "G:"+sp.Name, "(Array Int Int)", store(f.heap(st, "G:"+sp.Name, "(Array Int Int)"), id, "0"))
		}
	}
}
