package main

import (
	"fmt"
	"go/types"
	"math/big"
	"os"
	"strings"

	"golang.org/x/tools/go/ssa"
)

// calleeKey returns a printable name for the static callee or interface method.
func calleeName(c *ssa.CallCommon) string {
	if c.IsInvoke() {
		return "(" + types.TypeString(c.Value.Type(), nil) + ")." + c.Method.Name()
	}
	if fn := c.StaticCallee(); fn != nil {
		return fn.String()
	}
	if b, ok := c.Value.(*ssa.Builtin); ok {
		return "builtin " + b.Name()
	}
	return "dynamic call"
}

// funcTypeContract finds the functype contract for a call through a function
// value: by the name of a named function type, or - for an unnamed function
// type - by its signature as it would be written in the function's package.
func (f *FuncVC) funcTypeContract(c *ssa.CallCommon) *Contract {
	if c.IsInvoke() || c.StaticCallee() != nil || f.eng.funcTypes == nil {
		return nil
	}
	if nt, ok := c.Value.Type().(*types.Named); ok && nt.Obj().Pkg() != nil {
		return f.eng.funcTypes[nt.Obj().Pkg().Path()+"."+nt.Obj().Name()]
	}
	sig, ok := c.Value.Type().(*types.Signature)
	if !ok {
		return nil
	}
	pkg := f.fn.Pkg.Pkg
	qual := func(p *types.Package) string {
		if p == pkg {
			return ""
		}
		return p.Name()
	}
	var pt, rt []string
	for i := 0; i < sig.Params().Len(); i++ {
		pt = append(pt, types.TypeString(sig.Params().At(i).Type(), qual))
	}
	for i := 0; i < sig.Results().Len(); i++ {
		rt = append(rt, types.TypeString(sig.Results().At(i).Type(), qual))
	}
	key := "(" + strings.Join(pt, ",") + ")(" + strings.Join(rt, ",") + ")"
	for _, name := range sortedKeys(f.eng.funcTypes) {
		con := f.eng.funcTypes[name]
		if con.PkgPath == pkg.Path() && con.SigKey == key {
			return con
		}
	}
	return nil
}

// contractFor finds the contract of a call target.
func (f *FuncVC) contractFor(c *ssa.CallCommon) *Contract {
	if c.IsInvoke() {
		return f.eng.contractOfMethod(c.Method)
	}
	if fn := c.StaticCallee(); fn != nil {
		if obj, ok := fn.Object().(*types.Func); ok {
			return f.eng.contractOf(obj)
		}
	}
	return nil
}

func (f *FuncVC) call(st *State, x *ssa.Call) *Val {
	c := &x.Call
	resTy := x.Type()
	if b, ok := c.Value.(*ssa.Builtin); ok {
		return f.builtin(st, x, b)
	}
	if fn := c.StaticCallee(); fn != nil && fn.Name() == "ssa:deferstack" {
		return &Val{K: KInt, T: "0", Ty: resTy}
	}
	var args []*Val
	if c.IsInvoke() {
		recv := f.val(st, c.Value)
		if recv.K == KIface {
			f.oblige(st, "nil", f.srcAt(x.Pos()), not(eq(recv.Fs[0].T, "0")))
		}
		args = append(args, recv)
	}
	for _, a := range c.Args {
		args = append(args, f.val(st, a))
	}
	if !c.IsInvoke() && c.StaticCallee() == nil {
		// call through a function value: a nil function value panics
		if fv := f.val(st, c.Value); fv != nil && fv.K == KFunc && fv.Fn == nil && fv.T != "" {
			f.oblige(st, "nil", f.srcAt(x.Pos()), not(eq(fv.T, "0")))
		}
	}
	if r, ok := f.binaryReadParser(st, x); ok {
		return r
	}
	if r, ok := f.readFullParser(st, x); ok {
		return r
	}
	if con := f.contractFor(c); con != nil {
		return f.applyContract(st, x, con, args)
	}
	if con := f.funcTypeContract(c); con != nil && len(args) == len(con.Params) {
		// call through a function value whose type has a declared contract
		return f.applyContract(st, x, con, args)
	}
	if r, ok := f.fieldFuncCall(st, x, args); ok {
		return r
	}
	if r, ok := f.libCall(st, x, args); ok {
		return r
	}
	// unknown callee: havoc everything reachable (sound, weak)
	name := calleeName(c)
	f.havocCallee[name] = true
	f.havocAll(st, "call")
	return f.freshTyped(st, resTy, "ret")
}

// applyContract: prove requires, havoc modifies, assume ensures.
func (f *FuncVC) applyContract(st *State, x *ssa.Call, con *Contract, args []*Val) *Val {
	key := con.Key()
	if con.Assumed {
		f.usedAssumed[key] = true
	} else {
		f.usedCon[key] = true
	}
	if len(args) != len(con.Params) {
		f.unsup(fmt.Sprintf("call of %s: contract has %d parameters, call has %d arguments", key, len(con.Params), len(args)))
		f.havocAll(st, "call")
		return f.freshTyped(st, x.Type(), "ret")
	}
	src := f.srcAt(x.Pos())
	pre := st.clone()
	anyAtCall := map[string]*Val{}
	mkEval := func(s *State, old *State) *Eval {
		ev := &Eval{f: f, st: s, old: old, env: map[string]*Val{}, lets: map[string]ast_Expr{}, bound: map[string]*Val{}}
		ev.pkg = f.eng.typesPkg(con.PkgPath, f.fn.Pkg.Pkg)
		for i, p := range con.Params {
			ev.env[p] = args[i]
		}
		for _, l := range con.Lets {
			ev.lets[l.Name] = l.Expr
		}
		for _, a := range con.Anys {
			ev.env[a[0]] = anyAtCall[a[0]]
		}
		if con.FuncType && !x.Call.IsInvoke() && x.Call.StaticCallee() == nil {
			// the function value the call goes through ("thisfunc" in a functype contract)
			if fv := f.val(st, x.Call.Value); fv != nil && fv.K == KFunc && fv.T != "" {
				ev.env["thisfunc"] = fv
			}
		}
		return ev
	}
	// "any" variables of the callee: one fresh arbitrary value per call (a
	// requires clause is then proved for an arbitrary value, an ensures clause
	// is assumed for that one value only - sound, weaker than the quantifier)
	for _, a := range con.Anys {
		// a caller that declares the same variable passes its own (arbitrary) value on
		same := false
		if f.con != nil {
			for _, b := range f.con.Anys {
				if b == a {
					same = true
				}
			}
		}
		if same {
			anyAtCall[a[0]] = f.anyVal(a[0], a[1])
			continue
		}
		c := f.sc.fresh("anycall." + a[0])
		f.sc.declare(c, "Int")
		v := &Val{K: KInt, T: c}
		if obj := types.Universe.Lookup(a[1]); obj != nil {
			v.Ty = obj.Type()
			if lo, hi, ok := intRangeOf(obj.Type()); ok {
				f.sc.assert(and(cmp("<=", numBig(lo), c), cmp("<=", c, numBig(hi))))
			}
		}
		anyAtCall[a[0]] = v
	}
	ev := mkEval(pre, pre)
	assumePre := false
	if f.con != nil {
		for _, n := range strings.Split(f.con.Opts["assume_pre"], ",") {
			if n != "" && n == con.Name {
				assumePre = true
			}
		}
	}
	for _, c := range con.Requires {
		if assumePre {
			// opt assume_pre=<callee>: the caller's contract does not cover the data
			// this callee needs; its precondition is assumed here and reported
			f.usedAssumed["precondition of "+con.Name+" is ASSUMED at its call in "+f.name()+" (opt assume_pre): "+c.Text] = true
			f.assume(st, ev.assuming().evalBool(c.Expr))
			continue
		}
		for _, cj := range ev.evalConj(c.Expr) {
			f.oblige(st, "pre", src+" requires "+cj.Label, cj.Term)
		}
	}
	for _, c := range con.PanicsIf {
		f.oblige(st, "pre", src+" must not panic: "+c.Text, not(ev.evalBool(c.Expr)))
	}
	// frame: the callee's modifies must be within ours
	mods := f.resolveMods(ev, con.Modifies)
	if !con.HasMod {
		mods = []resolvedMod{{kind: "all"}}
	}
	for _, m := range mods {
		f.applyMod(st, m, src)
	}
	f.bumpWM(st)
	// results
	var res *Val
	resTy := x.Type()
	var results []*Val
	if tup, ok := resTy.(*types.Tuple); ok {
		res = &Val{K: KTuple, Ty: resTy}
		for i := 0; i < tup.Len(); i++ {
			r := f.freshTyped(st, tup.At(i).Type(), "ret")
			res.Fs = append(res.Fs, r)
			results = append(results, r)
		}
	} else {
		res = f.freshTyped(st, resTy, "ret")
		results = []*Val{res}
	}
	post := mkEval(st, pre)
	for i, r := range results {
		if i < len(con.Results) {
			post.env[con.Results[i]] = r
		}
	}
	for _, c := range con.Ensures {
		f.sc.add("; callee ensures " + c.Text)
		f.assume(st, post.assuming().evalBool(c.Expr))
	}
	for _, c := range con.EnsuresAssumed {
		f.sc.add("; callee ensures (ASSUMED, not checked in the callee) " + c.Text)
		f.usedAssumed["postcondition of "+con.Name+" that is NOT checked in its body (ensures_assumed): "+c.Text] = true
		f.assume(st, post.assuming().evalBool(c.Expr))
	}
	if con.Assumed && f.pure == 0 {
		// vacuity guard: an assumed contract must not make the path infeasible
		o := &Obligation{Name: fmt.Sprintf("%s#vacuity:after %s", f.name(), src), Kind: "vacuity", Func: f.name(), Prefix: len(f.sc.cmds), PC: st.pc, Goal: "false", Expect: "sat", fv: f}
		f.nameCount[o.Name]++
		if n := f.nameCount[o.Name]; n > 1 {
			o.Name = fmt.Sprintf("%s~%d", o.Name, n)
		}
		f.obls = append(f.obls, o)
	}
	return res
}

// applyMod havocs the heap part described by m and checks it against the
// caller's own modifies clause.
func (f *FuncVC) applyMod(st *State, m resolvedMod, src string) {
	if m.kind == "all" {
		if f.con != nil && f.con.HasMod {
			allowed := false
			for _, mm := range f.modTargets {
				if mm.kind == "all" {
					allowed = true
				}
			}
			if !allowed {
				f.oblige(st, "frame", src+" (callee may modify anything)", "false")
			}
		}
		f.havocAll(st, "call")
		return
	}
	if m.kind == "heap" {
		if f.con != nil && f.con.HasMod {
			okk := false
			for _, mm := range f.modTargets {
				if mm.kind == "all" || (mm.kind == "heap" && mm.heap == m.heap) {
					okk = true
				}
			}
			if !okk {
				f.oblige(st, "frame", src+" modifies "+m.text, "false")
			}
		}
		names := map[string]string{}
		for n, s := range f.universe {
			names[n] = s
		}
		for n, s := range f.heapSorts {
			names[n] = s
		}
		for _, n := range sortedKeys(names) {
			if prefixCovers(m.heap, n) {
				fr := f.sc.fresh(n + "@hv")
				f.sc.declare(fr, names[n])
				f.heapSorts[n] = names[n]
				st.heaps[n] = fr
			}
		}
		return
	}
	// frame check against our own clause
	if f.con != nil && f.con.HasMod && m.kind != "ghost" {
		ok := []string{cmp(">=", m.obj, f.wmEntry)}
		if m.kind == "elems" {
			ok = append(ok, eq(m.obj, "0")) // a nil slice has no elements
		}
		all := false
		for _, mm := range f.modTargets {
			switch mm.kind {
			case "all":
				all = true
			case "fields":
				if mm.heap == m.heap {
					ok = append(ok, eq(m.obj, mm.obj))
				}
			case "field":
				if mm.heap == m.heap && m.kind == "field" && (m.field == mm.field || strings.HasPrefix(m.field, mm.field+".")) {
					ok = append(ok, eq(m.obj, mm.obj))
				}
			case "elems":
				if mm.heap == m.heap && m.kind == "elems" {
					ok = append(ok, eq(m.obj, mm.obj))
				}
			case "heap":
				// all(T) / allelems(T) in our own clause covers every object of that heap family
				if mm.heap == m.heap || strings.HasPrefix(m.heap, mm.heap+".") {
					all = true
				}
			}
		}
		if !all {
			f.oblige(st, "frame", src+" modifies "+m.text, or(ok...))
		}
	}
	if f.con != nil && f.con.HasMod && m.kind == "ghost" {
		ok := []string{cmp(">=", m.obj, f.wmEntry)} // ghost state of an object allocated by this call
		for _, mm := range f.modTargets {
			if mm.kind == "all" || (mm.kind == "ghost" && mm.heap == m.heap) {
				if mm.kind == "all" {
					ok = append(ok, "true")
				} else {
					ok = append(ok, eq(m.obj, mm.obj))
				}
			}
		}
		f.oblige(st, "frame", src+" modifies "+m.text, or(ok...))
	}
	names := map[string]string{}
	for n, s := range f.universe {
		names[n] = s
	}
	for n, s := range f.heapSorts {
		names[n] = s
	}
	for _, n := range sortedKeys(names) {
		var hit bool
		switch m.kind {
		case "fields":
			hit = strings.HasPrefix(n, m.heap+".")
		case "field":
			hit = prefixCovers(m.heap+m.field, n)
		case "elems", "ghost":
			hit = prefixCovers(m.heap, n)
		}
		if !hit {
			continue
		}
		sort := names[n]
		if !strings.HasPrefix(sort, "(Array Int ") {
			continue
		}
		inner := sort[len("(Array Int ") : len(sort)-1]
		h := f.heap(st, n, sort)
		fr := f.sc.fresh("hv")
		f.sc.declare(fr, inner)
		if m.kind == "elems" && m.off != "" {
			// only the window [off, off+len) of the backing array may change
			q := f.sc.fresh("k")
			f.fact(st, fmt.Sprintf("(forall ((%s Int)) (! (=> (or (< %s %s) (>= %s (+ %s %s))) (= (select %s %s) (select (select %s %s) %s))) :pattern ((select %s %s))))", q, q, m.off, q, m.off, m.ln, fr, q, h, m.obj, q, fr, q))
		}
		f.setHeap(st, n, sort, store(h, m.obj, fr))
	}
}

type ast_Expr = astExpr

// callEffects adds the heap effects of a call to a loop havoc set.
func (f *FuncVC) callEffects(x *ssa.Call, hs *havocSet) {
	c := &x.Call
	if b, ok := c.Value.(*ssa.Builtin); ok {
		switch b.Name() {
		case "append", "copy":
			if sl, ok := c.Args[0].Type().Underlying().(*types.Slice); ok {
				hs.prefixes[elemHeapPrefix(sl.Elem())] = true
			}
		case "delete":
			hs.prefixes[mapHeapPrefix(c.Args[0].Type())] = true
		}
		return
	}
	if fn := c.StaticCallee(); fn != nil && fn.Name() == "ssa:deferstack" {
		return
	}
	con := f.contractFor(c)
	if con == nil {
		con = f.funcTypeContract(c)
	}
	if con != nil {
		if !con.HasMod {
			hs.all = true
			return
		}
		// evaluate targets over dummy arguments to learn the heap prefixes
		var argTypes []types.Type
		if c.IsInvoke() {
			argTypes = append(argTypes, c.Value.Type())
		}
		for _, a := range c.Args {
			argTypes = append(argTypes, a.Type())
		}
		if len(argTypes) != len(con.Params) {
			hs.all = true
			return
		}
		f.pure++
		f.noFacts++
		tmp := &State{cells: map[*ssa.Alloc]*Val{}, heaps: map[string]string{}, wm: "0", pc: "true"}
		ev := &Eval{f: f, st: tmp, old: tmp, env: map[string]*Val{}, lets: map[string]ast_Expr{}, bound: map[string]*Val{}}
		ev.pkg = f.eng.typesPkg(con.PkgPath, f.fn.Pkg.Pkg)
		for i, p := range con.Params {
			ev.env[p] = build(argTypes[i], func(l Leaf) string { return "0" })
		}
		for _, m := range f.resolveMods(ev, con.Modifies) {
			switch m.kind {
			case "all":
				hs.all = true
			case "fields":
				hs.prefixes[m.heap] = true
			case "field":
				hs.prefixes[m.heap+m.field] = true
			case "elems", "ghost", "heap":
				hs.prefixes[m.heap] = true
			}
		}
		f.noFacts--
		f.pure--
		return
	}
	if !c.IsInvoke() && c.StaticCallee() == nil {
		if ld, ok := c.Value.(*ssa.UnOp); ok {
			if fa, ok := ld.X.(*ssa.FieldAddr); ok {
				if pt, ok := fa.X.Type().Underlying().(*types.Pointer); ok {
					if named, ok := pt.Elem().(*types.Named); ok && named.Obj().Pkg() != nil {
						fld := pt.Elem().Underlying().(*types.Struct).Field(fa.Field)
						if f.eng.fieldFuncs[named.Obj().Pkg().Path()+"."+named.Obj().Name()+"."+fld.Name()] != nil {
							return // pure by declaration
						}
					}
				}
			}
		}
	}
	if eff, ok := libEffects(x); ok {
		for _, p := range eff {
			hs.prefixes[p] = true
		}
		return
	}
	hs.all = true
}

// ---------------------------------------------------------------------------
// builtins

func (f *FuncVC) builtin(st *State, x *ssa.Call, b *ssa.Builtin) *Val {
	args := x.Call.Args
	switch b.Name() {
	case "len":
		v := f.val(st, args[0])
		switch v.K {
		case KSlice:
			return &Val{K: KInt, Ty: x.Type(), T: v.Fs[2].T, Lo: big.NewInt(0)}
		case KStr:
			return &Val{K: KInt, Ty: x.Type(), T: f.sc.define("len", "Int", "(gstr.len "+v.T+")"), Lo: big.NewInt(0)}
		case KMap:
			return &Val{K: KInt, Ty: x.Type(), T: f.mapLen(st, v), Lo: big.NewInt(0)}
		case KArr:
			n := v.Ty.Underlying().(*types.Array).Len()
			return &Val{K: KInt, Ty: x.Type(), T: num(n), Lo: big.NewInt(n), Hi: big.NewInt(n)}
		case KPtr:
			if pt, ok := args[0].Type().Underlying().(*types.Pointer); ok {
				if at, ok := pt.Elem().Underlying().(*types.Array); ok {
					return &Val{K: KInt, Ty: x.Type(), T: num(at.Len())}
				}
			}
		}
	case "cap":
		v := f.val(st, args[0])
		if v.K == KSlice {
			return &Val{K: KInt, Ty: x.Type(), T: v.Fs[3].T, Lo: big.NewInt(0)}
		}
	case "append":
		return f.appendBuiltin(st, x)
	case "copy":
		return f.copyBuiltin(st, x)
	case "min", "max":
		v := f.val(st, args[0])
		for _, a := range args[1:] {
			w := f.val(st, a)
			if v.K != KInt {
				f.unsup("min/max on non-integers")
				return f.freshTyped(st, x.Type(), "minmax")
			}
			fn := "imin"
			if b.Name() == "max" {
				fn = "imax"
			}
			nv := &Val{K: KInt, Ty: x.Type(), T: "(" + fn + " " + v.T + " " + w.T + ")"}
			alo, ahi := bounds(v)
			blo, bhi := bounds(w)
			if alo != nil && blo != nil && ahi != nil && bhi != nil {
				if fn == "imin" {
					nv.Lo, nv.Hi = bigMin(alo, blo), bigMin(ahi, bhi)
				} else {
					nv.Lo, nv.Hi = bigMax(alo, blo), bigMax(ahi, bhi)
				}
			}
			v = nv
		}
		return v
	case "delete":
		f.mapDelete(st, f.val(st, args[0]), f.val(st, args[1]), args[0].Type().Underlying().(*types.Map))
		return &Val{K: KTuple}
	case "ssa:deferstack":
		return &Val{K: KInt, T: "0", Ty: x.Type()}
	case "print", "println":
		return &Val{K: KTuple}
	case "ssa:wrapnilchk":
		return f.val(st, args[0])
	case "clear":
	}
	f.unsup("builtin " + b.Name())
	f.havocAll(st, "builtin")
	return f.freshTyped(st, x.Type(), "builtin")
}

// elemLeaves lists heap names + sorts for the leaves of element type et.
func elemLeaves(et types.Type) (names []string, sorts []string, ls []Leaf) {
	prefix := elemHeapPrefix(et)
	for _, l := range leavesOfType(et) {
		names = append(names, prefix+l.Path)
		sorts = append(sorts, l.Sort)
		ls = append(ls, l)
	}
	return
}

func (f *FuncVC) appendBuiltin(st *State, x *ssa.Call) *Val {
	s := f.val(st, x.Call.Args[0])
	t := f.val(st, x.Call.Args[1])
	sl := x.Type().Underlying().(*types.Slice)
	et := sl.Elem()
	if s.K != KSlice {
		f.unsup("append to non-slice")
		return f.freshTyped(st, x.Type(), "append")
	}
	var tlen string
	var tref, toff string
	tIsStr := false
	switch t.K {
	case KSlice:
		tref, toff, tlen = t.Fs[0].T, t.Fs[1].T, t.Fs[2].T
	case KStr:
		tIsStr = true
		tlen = "(gstr.len " + t.T + ")"
	default:
		f.unsup("append of unsupported value")
		return f.freshTyped(st, x.Type(), "append")
	}
	ref, off, ln, cp := s.Fs[0].T, s.Fs[1].T, s.Fs[2].T, s.Fs[3].T
	newLen := f.sc.define("alen", "Int", arith("+", ln, tlen))
	fits := f.sc.define("fits", "Bool", cmp("<=", newLen, cp))
	f.frameAppend(st, s, and(fits, cmp(">", tlen, "0")), et)
	newRef := f.alloc(st)
	newCap := f.sc.fresh("acap")
	f.sc.declare(newCap, "Int")
	f.fact(st, cmp(">=", newCap, newLen))
	rRef := f.sc.define("aref", "Int", ite(fits, ref, newRef))
	rOff := f.sc.define("aoff", "Int", ite(fits, off, "0"))
	rCap := f.sc.define("acap", "Int", ite(fits, cp, newCap))
	names, sorts, _ := elemLeaves(et)
	n, constLen := litInt(tlen)
	for i, hn := range names {
		hs := arraySort(2, sorts[i])
		h := f.heap(st, hn, hs)
		src := sel(h, ref)
		dstOff := ite(fits, off, "0")
		dstOff = f.sc.define("doff", "Int", dstOff)
		var arr string
		if constLen && n.IsInt64() && n.Int64() <= 8 && !tIsStr {
			// in place: start from the old array; fresh: copy of the old elements
			base := f.sc.fresh("abase")
			f.sc.declare(base, arraySort(1, sorts[i]))
			q := f.sc.fresh("k")
			f.fact(st, fmt.Sprintf("(forall ((%s Int)) (! (=> (and (<= 0 %s) (< %s %s)) (= (select %s %s) (select %s (+ %s %s)))) :pattern ((select %s %s))))", q, q, q, ln, base, q, src, off, q, base, q))
			arr = ite(fits, src, base)
			for k := int64(0); k < n.Int64(); k++ {
				v := sel(sel(h, tref), arith("+", toff, num(k)))
				arr = store(arr, arith("+", dstOff, arith("+", ln, num(k))), v)
			}
			if os.Getenv("GVC_NO_APPEND_LEMMA") == "" {
				// name the resulting array and state the "old elements are kept"
				// view directly (valid in both the in-place and the reallocating
				// case), triggered by any read of the named array: spares the
				// solver the case split on fits for every element read
				an := f.sc.fresh("anew")
				f.sc.declare(an, arraySort(1, sorts[i]))
				f.fact(st, eq(an, arr))
				q2 := f.sc.fresh("j")
				f.fact(st, fmt.Sprintf("(forall ((%s Int)) (! (=> (and (<= %s %s) (< %s (+ %s %s))) (= (select %s %s) (select %s (+ %s (- %s %s))))) :pattern ((select %s %s))))",
					q2, dstOff, q2, q2, dstOff, ln, an, q2, src, off, q2, dstOff, an, q2))
				arr = an
			}
		} else {
			fr := f.sc.fresh("aarr")
			f.sc.declare(fr, arraySort(1, sorts[i]))
			q := f.sc.fresh("j")
			var tv string
			if tIsStr {
				tv = fmt.Sprintf("(gstr.at %s (- (- %s %s) %s))", t.T, q, dstOff, ln)
			} else {
				tv = fmt.Sprintf("(select (select %s %s) (+ %s (- (- %s %s) %s)))", h, tref, toff, q, dstOff, ln)
			}
			f.fact(st, fmt.Sprintf("(forall ((%s Int)) (! (and (=> (and (<= %s %s) (< %s (+ %s %s))) (= (select %s %s) (select %s (+ %s (- %s %s))))) (=> (and (<= (+ %s %s) %s) (< %s (+ %s %s))) (= (select %s %s) %s)) (=> (and %s (or (< %s (+ %s %s)) (>= %s (+ %s %s)))) (= (select %s %s) (select %s %s)))) :pattern ((select %s %s))))",
				q,
				dstOff, q, q, dstOff, ln, fr, q, src, off, q, dstOff,
				dstOff, ln, q, q, dstOff, newLen, fr, q, tv,
				fits, q, off, ln, q, off, newLen, fr, q, src, q,
				fr, q))
			arr = fr
		}
		f.setHeap(st, hn, hs, store(h, rRef, arr))
	}
	r := &Val{K: KSlice, Ty: x.Type(), Fs: []*Val{vInt(rRef, nil), vInt(rOff, nil), vInt(newLen, nil), vInt(rCap, nil)}}
	r.Fs[2].Lo = big.NewInt(0)
	return r
}

// frameAppend: an in-place append writes to the backing array of s.
func (f *FuncVC) frameAppend(st *State, s *Val, fits string, et types.Type) {
	if f.con == nil || !f.con.HasMod {
		return
	}
	heap := elemHeapPrefix(et)
	ok := []string{not(fits), cmp(">=", s.Fs[0].T, f.wmEntry)}
	for _, m := range f.modTargets {
		if m.kind == "all" {
			return
		}
		if m.kind == "elems" && m.heap == heap {
			ok = append(ok, eq(s.Fs[0].T, m.obj))
		}
		if m.kind == "heap" && m.heap == heap {
			return
		}
	}
	// appending zero elements writes nothing
	f.oblige(st, "frame", f.srcAt(f.curPos), or(ok...))
}

func (f *FuncVC) copyBuiltin(st *State, x *ssa.Call) *Val {
	d := f.val(st, x.Call.Args[0])
	s := f.val(st, x.Call.Args[1])
	if d.K != KSlice {
		f.unsup("copy to non-slice")
		return f.freshTyped(st, x.Type(), "copy")
	}
	et := d.Ty.Underlying().(*types.Slice).Elem()
	var slen string
	switch s.K {
	case KSlice:
		slen = s.Fs[2].T
	case KStr:
		slen = "(gstr.len " + s.T + ")"
	default:
		f.unsup("copy from unsupported value")
		return f.freshTyped(st, x.Type(), "copy")
	}
	n := f.sc.define("ncopy", "Int", "(imin "+d.Fs[2].T+" "+slen+")")
	if f.con != nil && f.con.HasMod {
		loc := &PtrInfo{Heap: elemHeapPrefix(et), Base: []string{d.Fs[0].T, d.Fs[1].T}}
		// copying zero bytes writes nothing
		save := st.pc
		st.pc = f.sc.define("pc.copy", "Bool", and(st.pc, cmp(">", n, "0")))
		f.frameCheck(st, loc)
		st.pc = save
	}
	names, sorts, _ := elemLeaves(et)
	for i, hn := range names {
		hs := arraySort(2, sorts[i])
		h := f.heap(st, hn, hs)
		old := sel(h, d.Fs[0].T)
		fr := f.sc.fresh("carr")
		f.sc.declare(fr, arraySort(1, sorts[i]))
		q := f.sc.fresh("k")
		var sv string
		if s.K == KStr {
			sv = fmt.Sprintf("(gstr.at %s (- %s %s))", s.T, q, d.Fs[1].T)
		} else {
			sv = fmt.Sprintf("(select (select %s %s) (+ %s (- %s %s)))", h, s.Fs[0].T, s.Fs[1].T, q, d.Fs[1].T)
		}
		f.fact(st, fmt.Sprintf("(forall ((%s Int)) (! (= (select %s %s) (ite (and (<= %s %s) (< %s (+ %s %s))) %s (select %s %s))) :pattern ((select %s %s))))",
			q, fr, q, d.Fs[1].T, q, q, d.Fs[1].T, n, sv, old, q, fr, q))
		f.setHeap(st, hn, hs, store(h, d.Fs[0].T, fr))
	}
	return &Val{K: KInt, Ty: x.Type(), T: n, Lo: big.NewInt(0)}
}

// fieldFuncCall handles a call through a function-typed struct field that has
// a declared (assumed) contract: the function is pure - its result is an
// uninterpreted function of the function value and the arguments - and
// satisfies the declared postconditions.
func (f *FuncVC) fieldFuncCall(st *State, x *ssa.Call, args []*Val) (*Val, bool) {
	c := &x.Call
	if c.IsInvoke() || c.StaticCallee() != nil {
		return nil, false
	}
	ld, ok := c.Value.(*ssa.UnOp)
	if !ok {
		return nil, false
	}
	fa, ok := ld.X.(*ssa.FieldAddr)
	if !ok {
		return nil, false
	}
	pt, ok := fa.X.Type().Underlying().(*types.Pointer)
	if !ok {
		return nil, false
	}
	named, ok := pt.Elem().(*types.Named)
	if !ok || named.Obj().Pkg() == nil {
		return nil, false
	}
	fld := pt.Elem().Underlying().(*types.Struct).Field(fa.Field)
	con := f.eng.fieldFuncs[named.Obj().Pkg().Path()+"."+named.Obj().Name()+"."+fld.Name()]
	if con == nil {
		return nil, false
	}
	fv := f.val(st, c.Value)
	recv := f.val(st, fa.X)
	all := append([]*Val{recv}, args...)
	if len(all) != len(con.Params) || fv.K != KFunc || fv.T == "" {
		return nil, false
	}
	f.usedAssumed["field function "+con.Key()+": pure, "+con.Header] = true
	f.oblige(st, "nil", f.srcAt(x.Pos())+" (call of nil function)", not(eq(fv.T, "0")))
	// result = uninterpreted function of (function value, arguments)
	resTy := x.Type()
	var sorts, terms []string
	sorts = append(sorts, "Int")
	terms = append(terms, fv.T)
	for _, a := range args {
		ts, err := leafTerms(a)
		if err != nil {
			return nil, false
		}
		for _, l := range leaves(a) {
			sorts = append(sorts, sortOfKindVal(l))
		}
		terms = append(terms, ts...)
	}
	i := 0
	res := build(resTy, func(l Leaf) string {
		fn := sym(fmt.Sprintf("ff:%s.%s%s", named.Obj().Name(), fld.Name(), l.Path))
		f.sc.declareFun(fn, sorts, l.Sort)
		i++
		return "(" + fn + " " + strings.Join(terms, " ") + ")"
	})
	f.nameAndRange(st, res, "ff")
	ev := &Eval{f: f, st: st, old: st, env: map[string]*Val{}, lets: map[string]ast_Expr{}, bound: map[string]*Val{}}
	ev.pkg = f.eng.typesPkg(con.PkgPath, f.fn.Pkg.Pkg)
	for k, p := range con.Params {
		ev.env[p] = all[k]
	}
	if len(con.Results) == 1 {
		ev.env[con.Results[0]] = res
	}
	for _, cl := range con.Ensures {
		f.assume(st, ev.assuming().evalBool(cl.Expr))
	}
	return res, true
}


// binaryReadParser models encoding/binary.Read(p, order, data) for a reader
// that is a *parser.Parser of the repository: binary.Read calls p.Read some
// number of times (io.ReadFull) and decodes into data.  The effect on p is the
// assumed contract "functype binaryReadModel" declared in the parser contract
// file (the contract of repeated (*Parser).Read calls); data receives arbitrary
// values of its type.
func (f *FuncVC) binaryReadParser(st *State, x *ssa.Call) (*Val, bool) {
	c := &x.Call
	fn := c.StaticCallee()
	if fn == nil || fn.Pkg == nil || fn.Pkg.Pkg.Path() != "encoding/binary" || fn.Name() != "Read" || len(c.Args) != 3 {
		return nil, false
	}
	ri, ok := c.Args[0].(*ssa.MakeInterface)
	if !ok {
		return nil, false
	}
	pt, ok := ri.X.Type().(*types.Pointer)
	if !ok {
		return nil, false
	}
	nt, ok := pt.Elem().(*types.Named)
	if !ok || nt.Obj().Pkg() == nil || nt.Obj().Pkg().Path() != modPath+"/parser" || nt.Obj().Name() != "Parser" {
		return nil, false
	}
	con := f.eng.funcTypes[modPath+"/parser.binaryReadModel"]
	if con == nil || len(con.Params) != 1 {
		return nil, false
	}
	di, ok := c.Args[2].(*ssa.MakeInterface)
	if !ok {
		return nil, false
	}
	dpt, ok := di.X.Type().Underlying().(*types.Pointer)
	if !ok {
		return nil, false
	}
	if _, sized := binarySize(dpt.Elem()); !sized {
		return nil, false
	}
	pv := f.val(st, ri.X)
	res := f.applyContract(st, x, con, []*Val{pv})
	tv := f.val(st, di.X)
	f.storeTo(st, tv, f.freshTyped(st, dpt.Elem(), "binread"), dpt.Elem())
	return res, true
}


// readFullParser models io.ReadFull(p, buf) for a reader that is a
// *parser.Parser of the repository: Parser.Read itself fills the whole buffer
// or fails, so io.ReadFull makes one call of p.Read and returns its results
// (io.ReadFull only maps a short read to io.ErrUnexpectedEOF, which p.Read
// already reports).  The checked contract of (*Parser).Read is used.
func (f *FuncVC) readFullParser(st *State, x *ssa.Call) (*Val, bool) {
	c := &x.Call
	fn := c.StaticCallee()
	if fn == nil || fn.Pkg == nil || fn.Pkg.Pkg.Path() != "io" || fn.Name() != "ReadFull" || len(c.Args) != 2 {
		return nil, false
	}
	ri, ok := c.Args[0].(*ssa.MakeInterface)
	if !ok {
		return nil, false
	}
	pt, ok := ri.X.Type().(*types.Pointer)
	if !ok {
		return nil, false
	}
	nt, ok := pt.Elem().(*types.Named)
	if !ok || nt.Obj().Pkg() == nil || nt.Obj().Pkg().Path() != modPath+"/parser" || nt.Obj().Name() != "Parser" {
		return nil, false
	}
	obj, _, _ := types.LookupFieldOrMethod(pt, true, nt.Obj().Pkg(), "Read")
	m, _ := obj.(*types.Func)
	if m == nil {
		return nil, false
	}
	con := f.eng.contractOf(m)
	if con == nil || len(con.Params) != 2 {
		return nil, false
	}
	f.usedAssumed["io.ReadFull(p, buf) with a *parser.Parser: one call of p.Read(buf) (which fills the buffer or fails); its results are returned"] = true
	return f.applyContract(st, x, con, []*Val{f.val(st, ri.X), f.val(st, c.Args[1])}), true
}
