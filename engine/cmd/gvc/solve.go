package main

import (
	"context"
	"crypto/sha256"
	"encoding/hex"
	"encoding/json"
	"fmt"
	"os"
	"os/exec"
	"path/filepath"
	"strings"
	"sync"
	"time"
)

// extra z3 configurations used when an obligation is retried: different
// random seeds counter the instability of quantifier instantiation.
var retrySolvers = []solverSpec{
	{"z3-5.1.0/seed1", func(file string, secs int) []string {
		return []string{"z3-new", "-smt2", fmt.Sprintf("-T:%d", secs), "smt.random_seed=1", "sat.random_seed=1", file}
	}},
	{"z3-5.1.0/seed7", func(file string, secs int) []string {
		return []string{"z3-new", "-smt2", fmt.Sprintf("-T:%d", secs), "smt.random_seed=7", "smt.arith.random_initial_value=true", file}
	}},
	{"z3-4.8.12/seed3", func(file string, secs int) []string {
		return []string{"/usr/bin/z3", "-smt2", fmt.Sprintf("-T:%d", secs), "smt.random_seed=3", file}
	}},
}

type SolveConfig struct {
	Retry     bool
	Timeout   time.Duration // per obligation
	Dir       string        // scratch dir for query files
	CacheDir  string
	Workers   int
	Double    bool // require a second, independent solver to agree (thorough)
	KeepFiles bool
}

type solverSpec struct {
	name string
	argv func(file string, secs int) []string
}

var solvers = []solverSpec{
	{"z3-5.1.0", func(file string, secs int) []string { return []string{"z3-new", "-smt2", fmt.Sprintf("-T:%d", secs), file} }},
	{"z3-4.8.12", func(file string, secs int) []string {
		return []string{"/usr/bin/z3", "-smt2", fmt.Sprintf("-T:%d", secs), file}
	}},
	{"cvc5-1.0", func(file string, secs int) []string {
		return []string{"cvc5", "--lang=smt2", fmt.Sprintf("--tlimit=%d", secs*1000), file}
	}},
}

func (o *Obligation) query(withModel bool) string {
	var sb strings.Builder
	sb.WriteString(prelude)
	f := o.fv
	for _, c := range f.sc.cmds[:o.Prefix] {
		sb.WriteString(c)
		sb.WriteByte('\n')
	}
	sb.WriteString("; obligation " + o.Name + "\n")
	sb.WriteString("(assert " + o.PC + ")\n")
	sb.WriteString("(assert " + not(o.Goal) + ")\n")
	sb.WriteString("(check-sat)\n")
	if withModel {
		sb.WriteString("(get-model)\n")
	}
	return sb.String()
}

type cacheEntry struct {
	Status string  `json:"status"`
	Solver string  `json:"solver"`
	Secs   float64 `json:"secs"`
}

func runSolver(ctx context.Context, sp solverSpec, file string, secs int) (string, string) {
	argv := sp.argv(file, secs)
	cctx, cancel := context.WithTimeout(ctx, time.Duration(secs+2)*time.Second)
	defer cancel()
	cmd := exec.CommandContext(cctx, argv[0], argv[1:]...)
	out, _ := cmd.CombinedOutput()
	s := string(out)
	first := ""
	for _, l := range strings.Split(s, "\n") {
		l = strings.TrimSpace(l)
		if l == "" || strings.HasPrefix(l, "WARNING") {
			continue // solver diagnostics precede the answer
		}
		first = l
		break
	}
	switch first {
	case "sat", "unsat", "unknown", "timeout":
		return first, s
	}
	if ctx.Err() != nil || cctx.Err() != nil {
		return "timeout", s
	}
	return "error", s
}

// solveOne decides one obligation: race the solvers, first definite answer wins.
func solveOne(o *Obligation, cfg *SolveConfig) {
	q := o.query(false)
	o.QBytes = len(q)
	if len(q) > 8<<20 {
		o.Status, o.Raw = "error", "query too large"
		return
	}
	sum := sha256.Sum256([]byte(q))
	key := hex.EncodeToString(sum[:])
	tag := ""
	if cfg.Double {
		tag = ".double"
	}
	cfile := filepath.Join(cfg.CacheDir, key+tag+".json")
	if cfg.CacheDir != "" && o.Expect == "unsat" {
		if data, err := os.ReadFile(cfile); err == nil {
			var ce cacheEntry
			if json.Unmarshal(data, &ce) == nil && ce.Status == "unsat" {
				o.Status, o.Solver, o.Secs = "discharged", ce.Solver+" (cached)", ce.Secs
				return
			}
		}
	}
	file := filepath.Join(cfg.Dir, key[:24]+".smt2")
	if err := os.WriteFile(file, []byte(q), 0o644); err != nil {
		o.Status, o.Raw = "error", err.Error()
		return
	}
	if !cfg.KeepFiles {
		defer os.Remove(file)
	}
	secs := int(cfg.Timeout / time.Second)
	if o.Budget > 0 {
		secs = int(o.Budget / time.Second)
	}
	if secs < 1 {
		secs = 1
	}
	if o.Expect == "sat" {
		// vacuity / cover check: only "unsat" is bad; keep it cheap
		start := time.Now()
		res, raw := runSolver(context.Background(), solvers[0], file, min(secs, 3))
		o.Secs = time.Since(start).Seconds()
		o.Solver = solvers[0].name
		if res == "unsat" {
			o.Status, o.Raw = "failed", raw
		} else {
			o.Status = "discharged"
		}
		return
	}
	type answer struct {
		res, raw, solver string
		secs             float64
	}
	ctx, cancel := context.WithCancel(context.Background())
	defer cancel()
	ch := make(chan answer, len(solvers)+len(retrySolvers))
	start := time.Now()
	launch := func(sp solverSpec) {
		budget := secs
		go func() {
			t0 := time.Now()
			res, raw := runSolver(ctx, sp, file, budget)
			ch <- answer{res, raw, sp.name, time.Since(t0).Seconds()}
		}()
	}
	launch(solvers[0])
	pending := 1
	launchedAll := false
	stagger := time.After(4 * time.Second)
	var answers []answer
	var definite []answer
	for pending > 0 {
		select {
		case a := <-ch:
			pending--
			answers = append(answers, a)
			if a.res == "sat" || a.res == "unsat" {
				definite = append(definite, a)
				if !cfg.Double || a.res == "sat" || len(definite) >= 2 {
					pending = 0
				}
			}
			if pending == 0 && !launchedAll && len(definite) == 0 {
				launchedAll = true
				launch(solvers[1])
				launch(solvers[2])
				pending = 2
				if cfg.Retry {
					for _, sp := range retrySolvers {
						launch(sp)
						pending++
					}
				}
			}
			if cfg.Double && len(definite) == 1 && !launchedAll && a.res == "unsat" {
				// confirmation by an independent solver: a short budget is enough
				// for the obligations a second solver can decide at all
				launchedAll = true
				saved := secs
				if secs > 30 {
					secs = 30
				}
				launch(solvers[1])
				launch(solvers[2])
				secs = saved
				pending += 2
			}
		case <-stagger:
			if !launchedAll && len(definite) == 0 {
				launchedAll = true
				launch(solvers[1])
				launch(solvers[2])
				pending += 2
				if cfg.Retry {
					for _, sp := range retrySolvers {
						launch(sp)
						pending++
					}
				}
			}
		}
	}
	cancel()
	o.Secs = time.Since(start).Seconds()
	if len(definite) >= 2 && definite[0].res != definite[1].res {
		o.Status, o.Raw = "error", "solvers disagree: "+definite[0].solver+"="+definite[0].res+" "+definite[1].solver+"="+definite[1].res
		return
	}
	if len(definite) > 0 {
		d := definite[0]
		o.Solver = d.solver
		if d.res == "unsat" {
			if cfg.Double && len(definite) < 2 {
				// thorough tier: a second, independent solver is asked to confirm
				// every unsat; when it cannot decide within the timeout the
				// obligation stays discharged by the first solver and is counted
				// as unconfirmed in the evidence (a disagreement - sat against
				// unsat - is an error, see above)
				o.Status = "discharged"
				o.Solver = d.solver + " (unconfirmed)"
				return
			}
			if cfg.Double {
				o.Solver = definite[0].solver + "+" + definite[1].solver
			}
			o.Status = "discharged"
			if cfg.CacheDir != "" {
				data, _ := json.Marshal(cacheEntry{"unsat", o.Solver, o.Secs})
				os.WriteFile(cfile, data, 0o644)
			}
			return
		}
		// sat: fetch a model from the winning solver
		o.Status = "failed"
		mfile := file + ".model.smt2"
		os.WriteFile(mfile, []byte(o.query(true)), 0o644)
		defer os.Remove(mfile)
		for _, sp := range solvers {
			if sp.name == d.solver {
				_, raw := runSolver(context.Background(), sp, mfile, secs)
				o.Model = raw
			}
		}
		o.Raw = d.raw
		return
	}
	o.Status = "unknown"
	var parts []string
	for _, a := range answers {
		parts = append(parts, a.solver+": "+strings.TrimSpace(strings.SplitN(a.raw, "\n", 2)[0]))
	}
	o.Raw = strings.Join(parts, "; ")
}

func solveAll(obls []*Obligation, cfg *SolveConfig) {
	os.MkdirAll(cfg.Dir, 0o755)
	if cfg.CacheDir != "" {
		os.MkdirAll(cfg.CacheDir, 0o755)
	}
	run := func(list []*Obligation, workers int, fn func(o *Obligation)) {
		var wg sync.WaitGroup
		ch := make(chan *Obligation)
		for i := 0; i < workers; i++ {
			wg.Add(1)
			go func() {
				defer wg.Done()
				for o := range ch {
					fn(o)
				}
			}()
		}
		for _, o := range list {
			ch <- o
		}
		close(ch)
		wg.Wait()
	}
	// phase 1: every obligation, racing solvers, full parallelism
	run(obls, cfg.Workers, func(o *Obligation) {
		if o.Goal == "true" && o.Expect == "unsat" {
			o.Status, o.Solver = "discharged", "trivial"
			return
		}
		solveOne(o, cfg)
	})
	// phase 2: obligations without a definite answer are retried with little
	// load on the machine and a longer timeout, so that a slow but provable
	// obligation is not reported because of CPU contention
	var retry []*Obligation
	for _, o := range obls {
		if o.Expect == "unsat" && (o.Status == "unknown" || o.Status == "error") && o.Budget == 0 {
			retry = append(retry, o)
		}
	}
	if len(retry) > 0 && len(retry) <= 40 {
		c2 := *cfg
		c2.Timeout = cfg.Timeout * 2
		c2.Retry = true
		run(retry, 3, func(o *Obligation) {
			first := o.Secs
			solveOne(o, &c2)
			o.Secs += first
		})
	}
}
