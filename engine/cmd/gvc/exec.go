package main

import (
	"os"
	"time"
	"fmt"
	"go/ast"
	"go/token"
	"go/types"
	"math/big"
	"sort"
	"strings"

	"golang.org/x/tools/go/ssa"
)

// State is the symbolic state at a program point.
type State struct {
	cells map[*ssa.Alloc]*Val
	heaps map[string]string
	wm    string
	pc    string
	dead  bool
	sym   *symHeaps // non-nil: heaps are bound variables (definition of a recursive spec function)
}

type symHeaps struct {
	names []string
	sorts []string
	noRow map[string]bool // heaps that must be passed whole (row refs vary between recursive calls)
	rows  []symRow // per-object rows of two-level heaps (see recSpecCall)
}

type symRow struct {
	heap string // heap name
	sort string // sort of the row (Array Int leaf)
	ref  string // object term, in terms of the definition's bound names
	name string // bound variable standing for (select heap ref)
}

// elemRow returns the row (select heap ref) of a two-level heap.  Inside the
// definition of a recursive spec function the row is a bound variable of its
// own, so that the function depends only on the objects it reads and not on
// the whole heap (allocations elsewhere do not invalidate facts about it).
func (f *FuncVC) elemRow(st *State, hn, rowSort, ref string) string {
	if st.sym != nil && !st.sym.noRow[hn] {
		for _, r := range st.sym.rows {
			if r.heap == hn && r.ref == ref {
				return r.name
			}
		}
		bn := f.sc.fresh("row")
		st.sym.rows = append(st.sym.rows, symRow{hn, rowSort, ref, bn})
		f.boundActive = append(f.boundActive, bn)
		if _, ok := f.heapSorts[hn]; !ok {
			f.heapSorts[hn] = "(Array Int " + rowSort + ")"
		}
		return bn
	}
	return sel(f.heap(st, hn, "(Array Int "+rowSort+")"), ref)
}

func (s *State) clone() *State {
	c := &State{cells: make(map[*ssa.Alloc]*Val, len(s.cells)), heaps: make(map[string]string, len(s.heaps)), wm: s.wm, pc: s.pc}
	for k, v := range s.cells {
		c.cells[k] = v
	}
	for k, v := range s.heaps {
		c.heaps[k] = v
	}
	return c
}

type Obligation struct {
	Name   string
	Kind   string
	Func   string
	Prefix int
	PC     string
	Goal   string
	Pos    token.Position
	Src    string
	Expect string // "unsat" normally; "sat" for vacuity/cover checks
	// results
	Status  string // discharged / failed / unknown / error
	Solver  string
	Secs    float64
	Model   string
	Raw     string
	QBytes  int
	fv      *FuncVC
	Entry   bool
	EdgePCs []string
	replayed   bool
	Budget     time.Duration
	replayLog  string
	replayTest string
}

type edge struct {
	from, to *ssa.BasicBlock
}

type edgeState struct {
	st   *State
	cond string
}

// FuncVC generates the verification conditions of one function.
type FuncVC struct {
	eng  *Engine
	qfactSeen map[string]bool
	fn   *ssa.Function
	con  *Contract
	sc   *Script
	strs *strTable

	regs       map[ssa.Value]*Val
	localAlloc map[*ssa.Alloc]bool
	obls       []*Obligation
	nameCount  map[string]int
	heapSorts  map[string]string
	universe   map[string]string // heap name -> sort (from previous pass)
	typeTags   map[string]int
	globals    map[*ssa.Global]*Val

	entry      *State
	paramEntry map[string]*Val // entry values by contract parameter name
	wmEntry    string
	modTargets []resolvedMod // function-level modifies, evaluated at entry

	loops     map[*ssa.BasicBlock]*loopInfo
	backEdges map[edge]bool
	edgeOut   map[edge]*edgeState
	declPos   map[token.Pos][]*ssa.Alloc

	unsupported []string
	warnings    []string
	havocCallee map[string]bool
	usedAssumed map[string]bool
	usedCon     map[string]bool
	pure        int // >0: inside contract evaluation (no side-effect emission)
	curPos      token.Pos
	curBlock    *ssa.BasicBlock
	bounded     bool
	skolems     map[*ast.FuncLit]skolemInfo
	decomps     map[string][]string
	anys        map[string]*Val
	boundActive []string
	noFacts     int
	boundSorts  []string   // sorts of boundActive entries ("" for non-quantifier bindings)
	qfacts      [][]string // facts about quantified terms, per open quantifier
	recSpecs    map[string]*recSpecInfo
	noTerm      []string
	covered     map[string]bool
	allocOrder  map[*ssa.Alloc]int
}

type loopInfo struct {
	header  *ssa.BasicBlock
	blocks  map[*ssa.BasicBlock]bool
	ordinal int
	con     *LoopContract
	d0      string // decreases value at head
	d02     string
	stmt    ast.Node
	headSt  *State
	autoRI  *ssa.Alloc
	autoDec string
	autoMap string
	autoStr string // iterator id of a range-over-string loop
	autoMapT *types.Map
	entryOld *State
}

type resolvedMod struct {
	kind  string // fields, field, elems, ghost, all
	heap  string // heap prefix (fields: "H:T", elems: "M:T", ghost: "G:name")
	field string // for kind field: ".name" path prefix
	obj   string // object id / ref term
	off   string // elems: window start
	ln    string // elems: window length
	text  string
}

type skolemInfo struct {
	fn    string
	arity int
}

func (f *FuncVC) name() string {
	return shortFuncName(f.fn)
}

func shortFuncName(fn *ssa.Function) string {
	s := fn.String()
	s = strings.ReplaceAll(s, "seehuhn.de/go/sfnt/", "")
	s = strings.ReplaceAll(s, "seehuhn.de/go/sfnt.", "sfnt.")
	return s
}

func (f *FuncVC) unsup(what string) {
	f.unsupported = append(f.unsupported, what)
}

// ---------------------------------------------------------------------------
// obligations

func (f *FuncVC) oblige(st *State, kind, src, goal string) *Obligation {
	if st.dead {
		return nil
	}
	if f.con != nil && f.con.Opts["assume_make"] != "" && kind == "make" {
		// A-MEM: sizes of internal buffers are bounded by available memory
		f.usedAssumed["allocation sizes in "+f.name()+" are assumed to be within limits (A-MEM)"] = true
		f.assume(st, goal)
		return nil
	}
	if kind == "lossless" && f.con != nil && f.con.Opts["lossless_skip"] != "" {
		for _, pat := range strings.Split(f.con.Opts["lossless_skip"], ";") {
			if pat != "" && strings.Contains(src, pat) {
				// the narrowed value is validated later (e.g. a size check after
				// the loop that panics): no obligation here, nothing is assumed
				f.usedAssumed["narrowing "+src+" in "+f.name()+" is exempt from the lossless obligation (opt lossless_skip): the contract must establish its range otherwise"] = true
				return nil
			}
		}
	}
	if f.con != nil && f.con.Opts["only"] == "panics" && kind != "panic" {
		// panics-only contract: the only claim is that no explicit panic(...) is
		// reachable; every other condition (bounds, nil, postconditions,
		// termination) is NOT claimed here and is assumed
		f.usedAssumed["panics-only contract for "+f.name()+": only the reachability of its explicit panic(...) statements is checked; run-time safety, termination and its postconditions are assumed"] = true
		f.assume(st, goal)
		return nil
	}
	if f.con != nil && f.con.Opts["only"] == "frame" {
		switch kind {
		case "index", "slice", "nil", "div", "shift", "make", "typeassert", "panic", "decreases":
			// frame-only contract: run-time safety and termination of this
			// function are NOT claimed here; the condition is assumed
			f.usedAssumed["frame-only contract for "+f.name()+": absence of panics and termination are assumed, only the write set is checked"] = true
			f.assume(st, goal)
			return nil
		}
	}
	if goal == "true" {
		// trivially discharged by construction; still counted
	}
	base := f.name() + "#" + kind + ":" + src
	f.nameCount[base]++
	name := base
	if n := f.nameCount[base]; n > 1 {
		name = fmt.Sprintf("%s~%d", base, n)
	}
	o := &Obligation{Name: name, Kind: kind, Func: f.name(), Prefix: len(f.sc.cmds), PC: st.pc, Goal: goal, Src: src, Expect: "unsat", fv: f}
	if f.curPos.IsValid() {
		o.Pos = f.eng.fset.Position(f.curPos)
	}
	f.obls = append(f.obls, o)
	// assert-then-assume: later obligations may rely on this one
	f.assume(st, goal)
	return o
}

func (f *FuncVC) assume(st *State, fact string) {
	if fact == "true" || st.dead {
		return
	}
	f.sc.assert(implies(st.pc, fact))
}

// ---------------------------------------------------------------------------
// heaps

func arraySort(nIdx int, leaf string) string {
	s := leaf
	for i := 0; i < nIdx; i++ {
		s = "(Array Int " + s + ")"
	}
	return s
}

func (f *FuncVC) heap(st *State, name, sort string) string {
	if t, ok := st.heaps[name]; ok {
		return t
	}
	if st.sym != nil {
		bn := f.sc.fresh("hp")
		st.heaps[name] = bn
		st.sym.names = append(st.sym.names, name)
		st.sym.sorts = append(st.sym.sorts, sort)
		f.boundActive = append(f.boundActive, bn)
		if _, ok := f.heapSorts[name]; !ok {
			f.heapSorts[name] = sort
		}
		return bn
	}
	if old, ok := f.heapSorts[name]; ok && old != sort {
		f.unsup(fmt.Sprintf("heap %s used at sorts %s and %s", name, old, sort))
	}
	f.heapSorts[name] = sort
	base := sym(name + "@0")
	if !f.sc.declared[base] && f.wmEntry != "" && os.Getenv("GVC_NO_REFAX") == "" && (strings.HasSuffix(name, ".ref") || f.eng.isPtrHeap(name)) {
		// every slice reference and every struct pointer stored in the ENTRY
		// heap refers to an object that existed at function entry (heap typing
		// invariant, stated per heap so that the plain select is the trigger)
		f.sc.declare(base, sort)
		switch sort {
		case "(Array Int Int)":
			f.sc.assert("(forall ((o Int)) (! (< (select " + base + " o) " + f.wmEntry + ") :pattern ((select " + base + " o))))")
		case "(Array Int (Array Int Int))":
			f.sc.assert("(forall ((o Int) (i Int)) (! (< (select (select " + base + " o) i) " + f.wmEntry + ") :pattern ((select (select " + base + " o) i))))")
		}
	}
	f.sc.declare(base, sort)
	// Heaps missing from a state have not been touched since entry *unless*
	// a havoc-all happened; havoc-all enumerates f.universe, which is
	// complete after the discovery pass.
	st.heaps[name] = base
	return base
}

func (f *FuncVC) setHeap(st *State, name, sort, term string) {
	f.heapSorts[name] = sort
	st.heaps[name] = f.sc.define(name, sort, term)
}

// havocAll replaces every known heap by a fresh one (unknown callee).
func (f *FuncVC) havocAll(st *State, why string) {
	names := map[string]string{}
	for n, s := range f.universe {
		names[n] = s
	}
	for n, s := range f.heapSorts {
		names[n] = s
	}
	for _, n := range sortedKeys(names) {
		if strings.HasPrefix(n, "X:") { // immutable pseudo heaps
			continue
		}
		fr := f.sc.fresh(n + "@" + why)
		f.sc.declare(fr, names[n])
		f.heapSorts[n] = names[n]
		st.heaps[n] = fr
	}
	f.bumpWM(st)
}

func (f *FuncVC) bumpWM(st *State) {
	nw := f.sc.fresh("wm")
	f.sc.declare(nw, "Int")
	f.fact(st, cmp(">=", nw, st.wm))
	st.wm = nw
}

func (f *FuncVC) alloc(st *State) string {
	id := f.sc.define("obj", "Int", st.wm)
	st.wm = f.sc.define("wm", "Int", arith("+", st.wm, "1"))
	return id
}

// Loc handling -------------------------------------------------------------

func pathString(p []PathElem) (string, int) {
	s := ""
	n := 0
	for _, e := range p {
		if e.Field != "" {
			s += "." + e.Field
		} else {
			n++
		}
	}
	return s, n
}

// load reads the value at pointer p.
func (f *FuncVC) load(st *State, p *Val, ty types.Type) *Val {
	loc := f.locOf(p)
	if loc == nil {
		if at, ok := ty.Underlying().(*types.Array); ok && p.K == KPtr && p.P == nil && len(p.Fs) == 2 && p.Fs[1].T == "0" {
			// whole-array load from an array object on the element heap
			v := build(ty, func(l Leaf) string {
				return f.elemRow(st, elemHeapPrefix(at.Elem())+l.Path, l.Sort, p.Fs[0].T)
			})
			return v
		}
		f.unsup("load through unsupported pointer")
		return f.freshVal(ty, "unsup")
	}
	if loc.Local != nil {
		cell, ok := st.cells[loc.Local]
		if !ok {
			f.unsup("load of undefined local " + loc.Local.Comment)
			return f.freshVal(ty, "undef")
		}
		return f.navigate(cell, loc.Path)
	}
	if loc.Global != nil {
		g := f.globalVal(loc.Global)
		return f.navigate(g, loc.Path)
	}
	ps, nIdx := pathString(loc.Path)
	v := build(ty, func(l Leaf) string {
		hn := loc.Heap + ps + l.Path
		sort := arraySort(len(loc.Base)+nIdx, l.Sort)
		var t string
		if len(loc.Base) == 2 {
			t = sel(f.elemRow(st, hn, arraySort(1+nIdx, l.Sort), loc.Base[0]), loc.Base[1])
		} else {
			t = f.heap(st, hn, sort)
			for _, b := range loc.Base {
				t = sel(t, b)
			}
		}
		for _, e := range loc.Path {
			if e.Field == "" {
				t = sel(t, e.Index)
			}
		}
		return t
	})
	f.nameAndRange(st, v, "ld")
	return v
}

// nameAndRange abbreviates the leaf terms of a freshly loaded value and
// asserts the type ranges of its integer leaves.
func (f *FuncVC) nameAndRange(st *State, v *Val, base string) {
	if f.pure > 0 {
		f.pureFacts(st, v)
		return
	}
	var walk func(v *Val)
	walk = func(v *Val) {
		switch v.K {
		case KInt:
			v.T = f.sc.define(base, "Int", v.T)
			if b := basicOf(v.Ty); b != nil {
				if lo, hi, ok := intRange(b); ok {
					f.fact(st, and(cmp("<=", numBig(lo), v.T), cmp("<=", v.T, numBig(hi))))
					v.Lo, v.Hi = lo, hi
				}
			}
		case KBool, KFloat, KStr, KMap, KFunc:
			if v.T != "" {
				v.T = f.sc.define(base, sortOfKind(v.K), v.T)
			}
			if v.K == KMap {
				// a map value is nil (0) or the id of a map that exists already
				f.fact(st, and(cmp(">=", v.T, "0"), cmp("<", v.T, st.wm)))
			}
		case KSlice:
			for _, c := range v.Fs {
				c.T = f.sc.define(base, "Int", c.T)
			}
			f.assertSliceWF(st, v)
		case KPtr:
			if v.P != nil {
				return
			}
			if len(v.Fs) == 2 {
				v.Fs[0].T = f.sc.define(base, "Int", v.Fs[0].T)
				v.Fs[1].T = f.sc.define(base, "Int", v.Fs[1].T)
				f.fact(st, and(cmp(">=", v.Fs[0].T, "0"), cmp("<", v.Fs[0].T, st.wm), cmp(">=", v.Fs[1].T, "0")))
			} else {
				v.T = f.sc.define(base, "Int", v.T)
				f.fact(st, and(cmp(">=", v.T, "0"), cmp("<", v.T, st.wm)))
			}
		case KIface:
			v.Fs[0].T = f.sc.define(base, "Int", v.Fs[0].T)
			v.Fs[1].T = f.sc.define(base, "Int", v.Fs[1].T)
			f.assertIfaceWF(st, v)
		case KStruct, KTuple:
			for _, c := range v.Fs {
				walk(c)
			}
		case KArr:
			// lifted leaves: just name them
			for _, l := range leaves(v) {
				if l.T != "" && !isAtom(l.T) {
					// sort unknown here without the leaf list; leave unnamed
				}
			}
		}
	}
	walk(v)
}

func (f *FuncVC) assertSliceWF(st *State, v *Val) {
	ref, off, ln, cp := v.Fs[0].T, v.Fs[1].T, v.Fs[2].T, v.Fs[3].T
	f.fact(st, and(cmp(">=", ref, "0"), cmp("<", ref, st.wm), cmp(">=", off, "0"), cmp(">=", ln, "0"), cmp("<=", ln, cp),
		implies(eq(ref, "0"), eq(cp, "0")), cmp("<=", arith("+", off, cp), maxElems)))
	v.Fs[2].Lo = big.NewInt(0)
}

func (f *FuncVC) assertIfaceWF(st *State, v *Val) {
	tag, pay := v.Fs[0].T, v.Fs[1].T
	f.fact(st, and(cmp(">=", tag, "0"), implies(eq(tag, "0"), eq(pay, "0")), cmp("<", pay, st.wm)))
}

func (f *FuncVC) navigate(v *Val, path []PathElem) *Val {
	for _, e := range path {
		if e.Field != "" {
			if v.K != KStruct {
				f.unsup("field path on non-struct value")
				return v
			}
			st := v.Ty.Underlying().(*types.Struct)
			found := false
			for i := 0; i < st.NumFields(); i++ {
				if st.Field(i).Name() == e.Field {
					v = v.Fs[i]
					found = true
					break
				}
			}
			if !found {
				f.unsup("field not found " + e.Field)
				return v
			}
		} else {
			if v.K != KArr {
				f.unsup("index path on non-array value")
				return v
			}
			v = f.arrayIndex(v, e.Index)
		}
	}
	return v
}

// arrayIndex selects element idx of array value a (lifted representation).
func (f *FuncVC) arrayIndex(a *Val, idx string) *Val {
	et := a.Ty.Underlying().(*types.Array).Elem()
	ls := leaves(a.Fs[0])
	i := 0
	v := build(et, func(l Leaf) string {
		t := sel(ls[i].T, idx)
		i++
		return t
	})
	return v
}

func (f *FuncVC) arrayUpdate(a *Val, idx string, nv *Val) *Val {
	na := copyVal(a)
	ls := leaves(na.Fs[0])
	nls := leaves(nv)
	if len(ls) != len(nls) {
		f.unsup("array update shape mismatch")
		return na
	}
	for i := range ls {
		ls[i].T = store(ls[i].T, idx, nls[i].T)
	}
	return na
}

func (f *FuncVC) setPath(v *Val, path []PathElem, nv *Val) *Val {
	if len(path) == 0 {
		return nv
	}
	e := path[0]
	if e.Field != "" {
		if v.K != KStruct {
			f.unsup("field store on non-struct value")
			return v
		}
		c := *v
		c.Fs = append([]*Val(nil), v.Fs...)
		st := v.Ty.Underlying().(*types.Struct)
		for i := 0; i < st.NumFields(); i++ {
			if st.Field(i).Name() == e.Field {
				c.Fs[i] = f.setPath(v.Fs[i], path[1:], nv)
				return &c
			}
		}
		f.unsup("field not found " + e.Field)
		return v
	}
	if v.K != KArr {
		f.unsup("index store on non-array value")
		return v
	}
	elem := f.arrayIndex(v, e.Index)
	return f.arrayUpdate(v, e.Index, f.setPath(elem, path[1:], nv))
}

// storeTo writes nv through pointer p.
func (f *FuncVC) storeTo(st *State, p *Val, nv *Val, ty types.Type) {
	loc := f.locOf(p)
	if loc == nil {
		f.unsup("store through unsupported pointer")
		return
	}
	if loc.Local != nil {
		cell := st.cells[loc.Local]
		if cell == nil {
			cell = zeroVal(loc.Local.Type().(*types.Pointer).Elem())
		}
		st.cells[loc.Local] = f.setPath(cell, loc.Path, nv)
		return
	}
	if loc.Global != nil {
		f.oblige(st, "frame", "store to package variable "+loc.Global.Name(), "false")
		return
	}
	f.frameCheck(st, loc)
	ps, nIdx := pathString(loc.Path)
	ls := leavesOfType(ty)
	terms, err := leafTerms(nv)
	if err != nil || len(terms) != len(ls) {
		f.unsup(fmt.Sprintf("store of non-materialisable value (%v)", err))
		return
	}
	for i, l := range ls {
		hn := loc.Heap + ps + l.Path
		sort := arraySort(len(loc.Base)+nIdx, l.Sort)
		h := f.heap(st, hn, sort)
		var idx []string
		idx = append(idx, loc.Base...)
		for _, e := range loc.Path {
			if e.Field == "" {
				idx = append(idx, e.Index)
			}
		}
		f.setHeap(st, hn, sort, nestedStore(h, idx, terms[i]))
	}
}

func nestedStore(h string, idx []string, v string) string {
	if len(idx) == 0 {
		return v
	}
	if len(idx) == 1 {
		return store(h, idx[0], v)
	}
	return store(h, idx[0], nestedStore(sel(h, idx[0]), idx[1:], v))
}

// locOf turns a pointer value into a location.
func (f *FuncVC) locOf(p *Val) *PtrInfo {
	if p == nil || p.K != KPtr {
		return nil
	}
	if p.P != nil {
		return p.P
	}
	pt, ok := p.Ty.Underlying().(*types.Pointer)
	if !ok {
		return nil
	}
	if len(p.Fs) == 2 {
		et := pt.Elem()
		if _, ok := et.Underlying().(*types.Array); ok {
			return nil // whole-array access through a pointer: not supported
		}
		return &PtrInfo{Heap: elemHeapPrefix(et), Base: []string{p.Fs[0].T, p.Fs[1].T}, Ty: et}
	}
	return &PtrInfo{Heap: structHeapPrefix(pt.Elem()), Base: []string{p.T}, Ty: pt.Elem()}
}

// frameCheck generates the frame obligation for a heap store.
func (f *FuncVC) frameCheck(st *State, loc *PtrInfo) {
	if f.con == nil || !f.con.HasMod || f.pure > 0 {
		return
	}
	obj := loc.Base[0]
	ps, _ := pathString(loc.Path)
	ok := []string{cmp(">=", obj, f.wmEntry)}
	for _, m := range f.modTargets {
		switch m.kind {
		case "all":
			return
		case "fields":
			if m.heap == loc.Heap {
				ok = append(ok, eq(obj, m.obj))
			}
		case "field":
			if m.heap == loc.Heap && (ps == m.field || strings.HasPrefix(ps, m.field+".")) {
				ok = append(ok, eq(obj, m.obj))
			}
		case "elems":
			if m.heap == loc.Heap {
				ok = append(ok, eq(obj, m.obj))
			}
		case "heap":
			if m.heap == loc.Heap {
				return
			}
		}
	}
	src := f.srcAt(f.curPos)
	f.oblige(st, "frame", src, or(ok...))
}

// ---------------------------------------------------------------------------
// fresh values

func (f *FuncVC) freshVal(t types.Type, base string) *Val {
	v := build(t, func(l Leaf) string {
		n := f.sc.fresh(base + l.Path)
		f.sc.declare(n, l.Sort)
		return n
	})
	return v
}

// freshTyped creates a fresh value and asserts its well-formedness.
func (f *FuncVC) freshTyped(st *State, t types.Type, base string) *Val {
	v := f.freshVal(t, base)
	f.assertWF(st, v)
	return v
}

func (f *FuncVC) assertWF(st *State, v *Val) {
	switch v.K {
	case KInt:
		if b := basicOf(v.Ty); b != nil {
			if lo, hi, ok := intRange(b); ok {
				f.fact(st, and(cmp("<=", numBig(lo), v.T), cmp("<=", v.T, numBig(hi))))
				v.Lo, v.Hi = lo, hi
			}
		}
	case KSlice:
		f.assertSliceWF(st, v)
	case KIface:
		f.assertIfaceWF(st, v)
	case KMap:
		f.fact(st, and(cmp(">=", v.T, "0"), cmp("<", v.T, st.wm)))
	case KPtr:
		if v.P != nil {
			return
		}
		if len(v.Fs) == 2 {
			f.fact(st, and(cmp(">=", v.Fs[0].T, "0"), cmp("<", v.Fs[0].T, st.wm), cmp(">=", v.Fs[1].T, "0")))
		} else {
			f.fact(st, and(cmp(">=", v.T, "0"), cmp("<", v.T, st.wm)))
		}
	case KStruct, KTuple:
		for _, c := range v.Fs {
			f.assertWF(st, c)
		}
	}
}

func (f *FuncVC) typeTag(t types.Type) string {
	k := types.TypeString(t, nil)
	if n, ok := f.typeTags[k]; ok {
		return num(int64(n))
	}
	n := len(f.typeTags) + 1
	f.typeTags[k] = n
	return num(int64(n))
}

// globalVal returns the (immutable, A-SENTINEL) value of a package variable.
func (f *FuncVC) globalVal(g *ssa.Global) *Val {
	if v, ok := f.globals[g]; ok {
		return v
	}
	t := g.Type().(*types.Pointer).Elem()
	name := "X:" + g.Pkg.Pkg.Name() + "." + g.Name()
	v := build(t, func(l Leaf) string {
		n := sym(name + l.Path)
		f.sc.declare(n, l.Sort)
		return n
	})
	if v.K == KIface && types.Identical(t, types.Universe.Lookup("error").Type()) {
		// sentinel error: non-nil, distinct from every other sentinel
		id := int64(len(f.globals) + 1)
		f.sc.assert(eq(v.Fs[0].T, f.typeTag(types.NewNamed(types.NewTypeName(0, nil, "$sentinel", nil), types.NewStruct(nil, nil), nil))))
		f.sc.assert(eq(v.Fs[1].T, num(-id)))
	} else {
		// unknown but fixed content; integer leaves within type range
		for _, l := range leaves(v) {
			if l.K == KInt {
				if b := basicOf(l.Ty); b != nil {
					if lo, hi, ok := intRange(b); ok {
						f.sc.assert(and(cmp("<=", numBig(lo), l.T), cmp("<=", l.T, numBig(hi))))
					}
				}
			}
			if l.K == KMap {
				f.sc.assert(cmp(">=", l.T, "0"))
			}
		}
		if v.K == KSlice {
			f.sc.assert(and(cmp(">=", v.Fs[0].T, "0"), cmp(">=", v.Fs[1].T, "0"), cmp(">=", v.Fs[2].T, "0"), cmp("<=", v.Fs[2].T, v.Fs[3].T)))
		}
	}
	f.globals[g] = v
	return v
}

// ---------------------------------------------------------------------------
// source text helpers

func (f *FuncVC) srcAt(pos token.Pos) string {
	if !pos.IsValid() {
		return "?"
	}
	return f.eng.sourceText(f.fn, pos)
}

// ---------------------------------------------------------------------------
// merging

func (f *FuncVC) mergeStates(b *ssa.BasicBlock, ins []*edgeState) *State {
	if len(ins) == 0 {
		return nil
	}
	if len(ins) == 1 {
		st := ins[0].st.clone()
		st.pc = ins[0].cond
		return st
	}
	st := &State{cells: map[*ssa.Alloc]*Val{}, heaps: map[string]string{}}
	var conds []string
	for _, e := range ins {
		conds = append(conds, e.cond)
	}
	st.pc = f.sc.define(fmt.Sprintf("pc.b%d", b.Index), "Bool", or(conds...))
	// cells present in all (deterministic order)
	for _, a := range f.sortedCells(ins[0].st.cells) {
		v0 := ins[0].st.cells[a]
		vals := []*Val{v0}
		all := true
		for _, e := range ins[1:] {
			v, ok := e.st.cells[a]
			if !ok {
				all = false
				break
			}
			vals = append(vals, v)
		}
		if !all {
			continue
		}
		st.cells[a] = f.mergeVals(conds, vals, a.Comment)
	}
	names := map[string]bool{}
	for _, e := range ins {
		for n := range e.st.heaps {
			names[n] = true
		}
	}
	nl := make([]string, 0, len(names))
	for n := range names {
		nl = append(nl, n)
	}
	sort.Strings(nl)
	for _, n := range nl {
		var ts []string
		for _, e := range ins {
			ts = append(ts, f.heap(e.st, n, f.heapSorts[n]))
		}
		st.heaps[n] = f.sc.define(n, f.heapSorts[n], iteChain(conds, ts))
	}
	var wms []string
	for _, e := range ins {
		wms = append(wms, e.st.wm)
	}
	st.wm = f.sc.define("wm", "Int", iteChain(conds, wms))
	return st
}

func iteChain(conds, ts []string) string {
	same := true
	for _, t := range ts[1:] {
		if t != ts[0] {
			same = false
		}
	}
	if same {
		return ts[0]
	}
	r := ts[len(ts)-1]
	for i := len(ts) - 2; i >= 0; i-- {
		r = ite(conds[i], ts[i], r)
	}
	return r
}

func (f *FuncVC) mergeVals(conds []string, vals []*Val, base string) *Val {
	v0 := vals[0]
	same := true
	for _, v := range vals[1:] {
		if v != v0 {
			same = false
		}
	}
	if same {
		return v0
	}
	for _, v := range vals[1:] {
		if v.K != v0.K || len(v.Fs) != len(v0.Fs) {
			return &Val{K: KUnsupported, Ty: v0.Ty, Why: "merge of differently shaped values"}
		}
	}
	switch v0.K {
	case KInt, KBool, KFloat, KStr, KMap, KSeq:
		var ts []string
		for _, v := range vals {
			ts = append(ts, v.T)
		}
		r := &Val{K: v0.K, Ty: v0.Ty, T: f.sc.define(base, sortOfKindVal(v0), iteChain(conds, ts))}
		if v0.K == KInt {
			lo, hi := v0.Lo, v0.Hi
			lz := v0.LowZero
			for _, v := range vals[1:] {
				if lo != nil && v.Lo != nil {
					if v.Lo.Cmp(lo) < 0 {
						lo = v.Lo
					}
				} else {
					lo = nil
				}
				if hi != nil && v.Hi != nil {
					if v.Hi.Cmp(hi) > 0 {
						hi = v.Hi
					}
				} else {
					hi = nil
				}
				if v.LowZero < lz {
					lz = v.LowZero
				}
			}
			r.Lo, r.Hi, r.LowZero = lo, hi, lz
		}
		return r
	case KFunc:
		diff := false
		for _, v := range vals[1:] {
			if v.Fn != v0.Fn || v.T != v0.T {
				diff = true
			}
		}
		if !diff {
			return v0
		}
		// distinct function values: the identity term is kept (so nil tests
		// work), the static callee is forgotten (a call through the merged
		// value is a dynamic call)
		var ts []string
		for _, v := range vals {
			if v.T == "" {
				return &Val{K: KUnsupported, Ty: v0.Ty, Why: "merge of distinct function values"}
			}
			ts = append(ts, v.T)
		}
		return &Val{K: KFunc, Ty: v0.Ty, T: f.sc.define(base, "Int", iteChain(conds, ts))}
	case KPtr:
		if v0.P != nil {
			for _, v := range vals[1:] {
				if v.P == nil || !samePtrShape(v.P, v0.P) {
					return &Val{K: KUnsupported, Ty: v0.Ty, Why: "merge of interior pointers"}
				}
			}
			np := *v0.P
			np.Base = nil
			for i := range v0.P.Base {
				var ts []string
				for _, v := range vals {
					ts = append(ts, v.P.Base[i])
				}
				np.Base = append(np.Base, f.sc.define(base, "Int", iteChain(conds, ts)))
			}
			np.Path = nil
			for i, e := range v0.P.Path {
				if e.Field == "" {
					var ts []string
					for _, v := range vals {
						ts = append(ts, v.P.Path[i].Index)
					}
					e.Index = f.sc.define(base, "Int", iteChain(conds, ts))
				}
				np.Path = append(np.Path, e)
			}
			return &Val{K: KPtr, Ty: v0.Ty, P: &np}
		}
		for _, v := range vals[1:] {
			if v.P != nil {
				return &Val{K: KUnsupported, Ty: v0.Ty, Why: "merge of interior and plain pointers"}
			}
		}
		if len(v0.Fs) == 0 {
			var ts []string
			for _, v := range vals {
				ts = append(ts, v.T)
			}
			return &Val{K: KPtr, Ty: v0.Ty, T: f.sc.define(base, "Int", iteChain(conds, ts))}
		}
		fallthrough
	default:
		r := &Val{K: v0.K, Ty: v0.Ty}
		for i := range v0.Fs {
			var sub []*Val
			for _, v := range vals {
				sub = append(sub, v.Fs[i])
			}
			m := f.mergeVals(conds, sub, base)
			if m.K == KUnsupported {
				return m
			}
			r.Fs = append(r.Fs, m)
		}
		return r
	}
}

func sortOfKindVal(v *Val) string {
	if v.K == KSeq {
		return "(Array Int Int)"
	}
	return sortOfKind(v.K)
}

func samePtrShape(a, b *PtrInfo) bool {
	if a.Local != b.Local || a.Global != b.Global || a.Heap != b.Heap || len(a.Base) != len(b.Base) || len(a.Path) != len(b.Path) {
		return false
	}
	for i := range a.Path {
		if a.Path[i].Field != b.Path[i].Field {
			return false
		}
	}
	return true
}

// mentionsBound reports whether a term mentions an active quantified variable.
func (f *FuncVC) mentionsBound(t string) bool {
	for _, b := range f.boundActive {
		if strings.Contains(t, b) {
			return true
		}
	}
	return false
}

// pureFacts asserts the type invariants (integer ranges, slice well-formedness)
// of a value loaded while evaluating a contract expression.  They are facts
// about every Go heap, so asserting them is sound; terms that mention a bound
// variable are skipped.
func (f *FuncVC) pureFacts(st *State, v *Val) {
	if f.noFacts > 0 {
		return
	}
	emit := func(term string, fact string) {
		if f.mentionsBound(term) {
			// the fact is about a term under a quantifier: assert it as a
			// typing axiom of the heap, universally quantified over the
			// bound variables it mentions ("heap M:T holds values of type T")
			if len(f.qfacts) == 0 || os.Getenv("GVC_NO_QFACTS") != "" {
				return
			}
			var decls []string
			for i, b := range f.boundActive {
				if strings.Contains(fact, b) && i < len(f.boundSorts) && f.boundSorts[i] != "" {
					decls = append(decls, "("+b+" "+f.boundSorts[i]+")")
				}
			}
			if len(decls) == 0 {
				return
			}
			for _, b := range f.boundActive {
				if strings.Contains(fact, b) {
					found := false
					for _, d := range decls {
						if strings.HasPrefix(d, "("+b+" ") {
							found = true
						}
					}
					if !found {
						return // mentions a heap/parameter variable of a spec definition
					}
				}
			}
			// trigger on the loaded term itself, so the axiom is only
			// instantiated where that term occurs
			pat := ""
			if strings.HasPrefix(term, "(select ") && !strings.Contains(term, "(ite ") && !strings.Contains(term, "(not ") && !strings.Contains(term, "(and ") && !strings.Contains(term, "(or ") && !strings.Contains(term, "(=> ") && !strings.Contains(term, "(= ") && !strings.Contains(term, "(< ") && !strings.Contains(term, "(<= ") {
				all := true
				for _, d := range decls {
					bn := d[1:strings.Index(d, " ")]
					// the bound variable must be a direct index of a select:
					// triggers with arithmetic on bound variables are unstable
					if !strings.Contains(term, " "+bn+")") {
						all = false
					}
				}
				if all {
					pat = term
				}
			}
			if pat != "" && f.sc.usesDefined(pat) {
				pat = "" // macros may expand to terms that are illegal in patterns
			}
			if pat == "" {
				return // no usable trigger: skip rather than risk an unguided axiom
			}
			// the same typing axiom under the same path condition is emitted once
			// (contract clauses are evaluated many times: every loop entry,
			// preservation and exit re-evaluates the same quantified loads)
			canon := fact + " @ " + pat
			for i, d := range decls {
				bn := d[1:strings.Index(d, " ")]
				canon = strings.ReplaceAll(canon, bn, fmt.Sprintf("BV%d", i))
			}
			key := st.pc + "|" + canon
			if f.qfactSeen == nil {
				f.qfactSeen = map[string]bool{}
			}
			if f.qfactSeen[key] && os.Getenv("GVC_NO_QDEDUP") == "" {
				return
			}
			f.qfactSeen[key] = true
			f.fact(st, "(forall ("+strings.Join(decls, " ")+") (! "+fact+" :pattern ("+pat+")))")
			return
		}
		f.fact(st, fact)
	}
	switch v.K {
	case KInt:
		if b := basicOf(v.Ty); b != nil {
			if lo, hi, ok := intRange(b); ok {
				if (b.Kind() == types.Int || b.Kind() == types.Int64) && f.mentionsBound(v.T) && os.Getenv("GVC_Q64") == "" {
					// the 64-bit range of a signed element read under a quantifier is
					// never what a proof needs (it cannot exclude a wrap), but as a
					// two-variable axiom over every int slice it floods E-matching
					break
				}
				emit(v.T, and(cmp("<=", numBig(lo), v.T), cmp("<=", v.T, numBig(hi))))
			}
		}
	case KSlice:
		ref, off, ln, cp := v.Fs[0].T, v.Fs[1].T, v.Fs[2].T, v.Fs[3].T
		emit(ref+off+ln+cp, and(cmp(">=", ref, "0"), cmp("<", ref, st.wm), cmp(">=", off, "0"), cmp(">=", ln, "0"), cmp("<=", ln, cp),
			implies(eq(ref, "0"), eq(cp, "0")), cmp("<=", arith("+", off, cp), maxElems)))
	case KIface:
		tag, pay := v.Fs[0].T, v.Fs[1].T
		emit(tag+pay, and(cmp(">=", tag, "0"), implies(eq(tag, "0"), eq(pay, "0")), cmp("<", pay, st.wm)))
	case KStruct, KTuple:
		for _, c := range v.Fs {
			f.pureFacts(st, c)
		}
	}
}

// fact asserts a type invariant of a value that exists on the current path.
// It is guarded by the path condition: the terms involved may be meaningless
// (e.g. a negative slice length) on other paths.
func (f *FuncVC) fact(st *State, term string) {
	if term == "true" {
		return
	}
	f.sc.assert(implies(st.pc, term))
}

// sortedCells returns the allocs of a cell map in program order, so that the
// generated script (and with it the solver's behaviour) is deterministic.
func (f *FuncVC) sortedCells(m map[*ssa.Alloc]*Val) []*ssa.Alloc {
	out := make([]*ssa.Alloc, 0, len(m))
	for a := range m {
		out = append(out, a)
	}
	sort.Slice(out, func(i, j int) bool { return f.allocOrder[out[i]] < f.allocOrder[out[j]] })
	return out
}
